"""Normal forms shared between the TLA+ specification and the Python harness.

A polynomial is a dict  {exponent tuple: Fraction}  -- the Python image of the
function  monomial |-> rational  of spec/Poly.tla.  Term lists
``[[num, den, [exps...]], ...]`` are the JSON form read and written by TLC.
Nothing in this module derives semantics (no differentiation, no assembling of
ODEs): that is the specification's job.  It only converts, renders and
evaluates normal forms.
"""
from fractions import Fraction
import math

import mpmath


def P(terms):
    """term list -> dict"""
    out = {}
    for num, den, ex in terms:
        c = Fraction(num, den)
        if c != 0:
            k = tuple(ex)
            out[k] = out.get(k, Fraction(0)) + c
            if out[k] == 0:
                del out[k]
    return out


def terms(p):
    """dict -> term list (ints only; checks the 32-bit range TLC can read)"""
    res = []
    for ex, c in sorted(p.items()):
        c = Fraction(c)
        if c == 0:
            continue
        assert abs(c.numerator) < 2 ** 30 and c.denominator < 2 ** 30, "coefficient too large for TLC"
        res.append([c.numerator, c.denominator, list(ex)])
    return res


def padd(p, q):
    out = dict(p)
    for k, c in q.items():
        out[k] = out.get(k, Fraction(0)) + c
        if out[k] == 0:
            del out[k]
    return out


def pscale(c, p):
    c = Fraction(c)
    return {k: v * c for k, v in p.items()} if c != 0 else {}


def pmul(p, q):
    out = {}
    for k1, c1 in p.items():
        for k2, c2 in q.items():
            k = tuple(a + b for a, b in zip(k1, k2))
            out[k] = out.get(k, Fraction(0)) + c1 * c2
            if out[k] == 0:
                del out[k]
    return out


def psym(j, n, e=1):
    """symbol number j (1-based) to the power e"""
    ex = [0] * n
    ex[j - 1] = e
    return {tuple(ex): Fraction(1)}


def pconst(c, n):
    c = Fraction(c)
    return {tuple([0] * n): c} if c != 0 else {}


def ppad(p, n2):
    return {tuple(list(k) + [0] * (n2 - len(k))): c for k, c in p.items()}


class Symbols:
    """The symbol table of one definition: names, order, atom definitions.

    order: states, 't', params, derived, atoms   (spec/ModelSem.tla)"""

    def __init__(self, states, params, derived=(), atoms=()):
        self.states = list(states)
        self.params = list(params)
        self.derived = list(derived)          # names
        self.atoms = list(atoms)              # dicts: kind, arg (poly over all n), pair (1-based idx or 0)
        self.ns, self.np, self.nd = len(self.states), len(self.params), len(self.derived)
        self.n = self.ns + 1 + self.np + self.nd + len(self.atoms)

    def names(self):
        return self.states + ["t"] + self.params + self.derived

    def idx_state(self, i):       # 0-based state number -> 1-based symbol index
        return i + 1

    @property
    def idx_t(self):
        return self.ns + 1

    def idx_param(self, k):
        return self.ns + 2 + k

    def idx_derived(self, k):
        return self.ns + 2 + self.np + k

    def idx_atom(self, k):
        return self.ns + 2 + self.np + self.nd + k

    def is_atom(self, j):         # 1-based symbol index
        return j > self.ns + 1 + self.np + self.nd

    def atom(self, j):
        return self.atoms[j - (self.ns + 2 + self.np + self.nd)]


# ---------------------------------------------------------------------------
# rendering a normal form as an expression string the way a user would type it

def _render_pow(name, e, style):
    if e == 1:
        return name
    if style % 2 == 0 or e > 3:
        return "%s**%d" % (name, e)
    return "*".join([name] * e)


def render_atom(sy, j, style=0):
    a = sy.atom(j)
    arg = render(sy, a["arg"], style)
    if a["kind"] == "H":
        return "1/(1+%s)" % arg if style % 2 == 0 else "1/(%s + 1)" % arg
    if a["kind"] == "E":
        if _single(a["arg"]) and style % 2 == 0 and not arg.startswith("-"):
            return "exp(-%s)" % arg
        return "exp(-(%s))" % arg
    if a["kind"] == "C":
        return "cos(%s)" % arg
    if a["kind"] == "S":
        return "sin(%s)" % arg
    raise ValueError(a["kind"])


def _single(p):
    return len(p) == 1


def render(sy, p, style=0, rng=None):
    """expression string for polynomial p over the symbols of sy.

    style varies the surface syntax (powers as ** or repeated products, spaces,
    order of factors); the value is the same."""
    if not p:
        return "0"
    names = sy.names()
    out = []
    items = sorted(p.items())
    if rng is not None:
        rng.shuffle(items)
    for ex, c in items:
        num, den = [], []
        for j, e in enumerate(ex, start=1):
            if e == 0:
                continue
            if sy.is_atom(j):
                s = "(" + render_atom(sy, j, style) + ")"
                if e != 1:
                    s = s + "**%d" % abs(e)
                (num if e > 0 else den).append(s)
            else:
                nm = names[j - 1]
                (num if e > 0 else den).append(_render_pow(nm, abs(e), style))
        if rng is not None:
            rng.shuffle(num)
        c = Fraction(c)
        sign = "-" if c < 0 else "+"
        ac = abs(c)
        facs = list(num)
        if ac != 1 or not facs:
            if ac.denominator == 1:
                cs = str(ac.numerator)
            elif style % 3 == 0 and ac.denominator in (2, 4, 5, 8, 10, 20, 25, 50, 100):
                cs = repr(float(ac))            # 0.04, 0.5 ... exact as decimal strings
            else:
                cs = "%d/%d" % (ac.numerator, ac.denominator)
                if facs:
                    cs = "(" + cs + ")"
            facs = [cs] + facs
        s = "*".join(facs)
        for d in den:
            s += "/" + d
        out.append((sign, s))
    sep = " " if style % 2 else ""
    res = ""
    for k, (sign, s) in enumerate(out):
        if k == 0:
            res = ("-" + s) if sign == "-" else s
        else:
            res += sep + sign + sep + s
    return res


# ---------------------------------------------------------------------------
# evaluation of a normal form at a point

def atom_value(sy, j, point, mp=False):
    """numeric value of atom j at point (list of values for all plain symbols, atoms ignored)"""
    a = sy.atom(j)
    arg = peval(sy, a["arg"], point, mp)
    M = mpmath if mp else math
    if a["kind"] == "H":
        return 1 / (1 + arg)
    if a["kind"] == "E":
        return M.exp(-arg)
    if a["kind"] == "C":
        return M.cos(arg)
    if a["kind"] == "S":
        return M.sin(arg)
    raise ValueError


def full_point(sy, point, mp=False):
    """extend values of the plain symbols (states, t, params, derived) by the atom values"""
    pt = list(point)
    base = list(pt) + [0] * (sy.n - len(pt))
    for k in range(len(sy.atoms)):
        pt.append(atom_value(sy, sy.idx_atom(k), base, mp))
    return pt


def peval(sy, p, point, mp=False, scale=False):
    """value of p; point has one entry per symbol (atoms included unless p is atom free).
    With scale=True also return the sum of |terms| (for cancellation-aware tolerances)."""
    tot = mpmath.mpf(0) if mp else 0.0
    sc = mpmath.mpf(0) if mp else 0.0
    for ex, c in p.items():
        v = (mpmath.mpf(c.numerator) / c.denominator) if mp else float(c)
        for j, e in enumerate(ex):
            if e:
                v = v * point[j] ** e
        tot += v
        sc += abs(v)
    return (tot, sc) if scale else tot


def vec_eval(sy, v, point, mp=False):
    return [peval(sy, p, point, mp, scale=True) for p in v]


def mat_eval(sy, M, point, mp=False):
    return [[peval(sy, p, point, mp, scale=True) for p in row] for row in M]
