"""Bind the checks to /repo's *current working tree*.

PyGOM is pure Python except ``pygom.model._tau_leap`` (Cython).  Every check
imports the package straight from /repo/src, so edits to any .py file are
seen.  The compiled piece is covered by content: if the .pyx no longer hashes
to the pinned value (whose build is the .so in the tree) or the extension does
not import, the package is copied to a scratch directory outside /repo and
/verif, the extension is rebuilt there, and the check runs against the copy.
"""
import atexit
import hashlib
import os
import shutil
import subprocess
import sys

REPO = os.environ.get("PYGOM_REPO", "/repo")
PINNED_PYX_SHA256 = "c509df3ad4e33c6bd12bc9547e5f0ed80f124d291ac40a3b3d2c20bb6c078deb"
PY = "/venv/bin/python"


def _sha(path):
    with open(path, "rb") as f:
        return hashlib.sha256(f.read()).hexdigest()


def _ext_imports(src):
    code = "import sys; sys.path.insert(0, %r); import warnings; warnings.filterwarnings('ignore'); " \
           "from pygom.model._tau_leap import _cy_test_tau_leap_safety" % src
    p = subprocess.run([PY, "-c", code], stdout=subprocess.PIPE, stderr=subprocess.STDOUT)
    return p.returncode == 0


def source_dir():
    """directory to put on sys.path so that ``import pygom`` is the current working tree"""
    if os.environ.get("PYGOM_SRC"):
        return os.environ["PYGOM_SRC"]
    src = os.path.join(REPO, "src")
    pyx = os.path.join(src, "pygom", "model", "_tau_leap.pyx")
    if _sha(pyx) == PINNED_PYX_SHA256 and _ext_imports(src):
        os.environ["PYGOM_SRC"] = src
        return src
    # rebuild in a scratch copy
    from . import tlc
    scratch = tlc.scratch_dir("pygom_build_")
    atexit.register(shutil.rmtree, scratch, True)
    for item in ("src", "setup.py", "pyproject.toml", "README.md", "LICENSE.txt"):
        s = os.path.join(REPO, item)
        d = os.path.join(scratch, item)
        if os.path.isdir(s):
            shutil.copytree(s, d, ignore=shutil.ignore_patterns("*.so", "__pycache__", "_tau_leap.c"))
        elif os.path.exists(s):
            shutil.copy(s, d)
    env = dict(os.environ, SETUPTOOLS_SCM_PRETEND_VERSION="0.0.0")
    p = subprocess.run([PY, "setup.py", "build_ext", "--inplace"], cwd=scratch, env=env,
                       stdout=subprocess.PIPE, stderr=subprocess.STDOUT, text=True)
    new_src = os.path.join(scratch, "src")
    if p.returncode != 0 or not _ext_imports(new_src):
        raise RuntimeError("could not rebuild pygom.model._tau_leap from the working tree:\n" + p.stdout[-2000:])
    os.environ["PYGOM_SRC"] = new_src
    return new_src


def activate():
    src = source_dir()
    if src not in sys.path:
        sys.path.insert(0, src)
    os.environ.setdefault("PYGOM_VERIF", "1")
    return src
