"""validate MANIFEST.json and evidence files against the given schemas (tooling venv has jsonschema)"""
import json, sys, glob
import jsonschema
ok = True
m = json.load(open('/verif/MANIFEST.json')) if len(sys.argv) < 2 or sys.argv[1] != 'evidence' else None
if m is not None:
    jsonschema.validate(m, json.load(open('/root/.vp/MANIFEST.schema.json')))
    print("MANIFEST ok:", len(m['checks']), "checks")
s = json.load(open('/root/.vp/EVIDENCE.schema.json'))
for f in sorted(glob.glob('/verif/evidence/*.json')):
    try:
        jsonschema.validate(json.load(open(f)), s)
        print("ok", f)
    except Exception as ex:
        ok = False
        print("INVALID", f, str(ex)[:300])
sys.exit(0 if ok else 1)
