"""Catalogue models transcribed BY HAND (from the equations the models are documented with, using the
parameter names of the constructors) into the specification's abstract form: explicit ODE right-hand
sides in expanded form.  Nothing here is read from pygom.common_models; the PyGOM objects come from
there and must agree with these transcriptions.
"""
import re
from fractions import Fraction

from .codec import Symbols
from .gen import Defn

_tok = re.compile(r"\s*(\d+/\d+|\d+\.\d+|\d+|[A-Za-z_]\w*|\*\*|[-+*/()])")


def parse_expanded(sy, text, atom_names=()):
    """sum of signed products  c*a*b**2/N ...  (no parentheses) -> normal form; atom_names name the atom symbols
    (in the order of sy.atoms) where the text uses them"""
    names = {n: j for j, n in enumerate(sy.names())}
    for k, nm in enumerate(atom_names):
        names[nm] = sy.idx_atom(k) - 1
    toks = _tok.findall(text)
    out = {}
    i = 0
    sign = 1
    while i < len(toks):
        if toks[i] in "+-":
            sign = -1 if toks[i] == "-" else 1
            i += 1
            continue
        coef = Fraction(sign)
        ex = [0] * sy.n
        div = False
        while i < len(toks) and toks[i] not in "+-":
            t = toks[i]
            if t == "*":
                div = False
            elif t == "/":
                div = True
            elif t in names or re.match(r"\d", t):
                p = 1
                if i + 2 < len(toks) and toks[i + 1] == "**":
                    p = int(toks[i + 2])
                    i += 2
                if t in names:
                    ex[names[t]] += -p if div else p
                else:
                    v = Fraction(t) ** p
                    coef = coef / v if div else coef * v
                div = False
            else:
                raise ValueError("cannot parse %r in %r" % (t, text))
            i += 1
        k = tuple(ex)
        out[k] = out.get(k, Fraction(0)) + coef
        if out[k] == 0:
            del out[k]
        sign = 1
    return out


def _model(name, factory, states, params, rhs, theta, x0, tend, closed=False, atoms=()):
    """atoms: list of (name used in rhs, kind, argument text); a cosine atom must be followed by its sine partner"""
    sy0 = Symbols(states, params)
    n = sy0.n + len(atoms)
    alist = []
    for k, (nm, kind, arg) in enumerate(atoms):
        a = {tuple(list(ex) + [0] * (n - len(ex))): c for ex, c in parse_expanded(sy0, arg).items()}
        pair = (sy0.n + k + 2) if kind == "C" else (sy0.n + k) if kind == "S" else 0
        alist.append({"kind": kind, "arg": a, "pair": pair})
    sy = Symbols(states, params, [], alist)
    anames = [a[0] for a in atoms]
    procs = [{"kind": "ode", "st": i + 1, "eqn": parse_expanded(sy, r, anames)} for i, r in enumerate(rhs)]
    return {"name": name, "factory": factory, "defn": Defn(sy, [], procs), "theta": theta, "x0": x0, "tend": tend,
            "closed": closed}


def models():
    F = Fraction
    return [
        _model("SIS", "SIS", ["S", "I"], ["beta", "gamma", "N"],
               ["-beta*S*I/N + gamma*I", "beta*S*I/N - gamma*I"],
               [F(1, 2), F(1, 5), F(1)], [F(1), F(1, 10)], 20, closed=True),
        _model("SIR", "SIR", ["S", "I", "R"], ["beta", "gamma", "N"],
               ["-beta*S*I/N", "beta*S*I/N - gamma*I", "gamma*I"],
               [F(1, 2), F(1, 3), F(1)], [F(99, 100), F(1, 100), F(0)], 30, closed=True),
        _model("SEIR", "SEIR", ["S", "E", "I", "R"], ["beta", "alpha", "gamma", "N"],
               ["-beta*S*I/N", "beta*S*I/N - alpha*E", "alpha*E - gamma*I", "gamma*I"],
               [F(9, 5), F(1, 5), F(1, 2), F(1)], [F(99, 100), F(0), F(1, 100), F(0)], 25, closed=True),
        _model("SIR_norm", "SIR_norm", ["S", "I", "R"], ["beta", "gamma"],
               ["-beta*S*I", "beta*S*I - gamma*I", "gamma*I"],
               [F(1, 2), F(1, 3)], [F(1), F(127, 100000), F(0)], 30, closed=True),
        _model("SIR_Birth_Death", "SIR_Birth_Death", ["S", "I", "R", "N"], ["beta", "gamma", "mu"],
               ["-beta*S*I/N + mu*N - mu*S", "beta*S*I/N - gamma*I - mu*I", "gamma*I - mu*R",
                "mu*N - mu*S - mu*I - mu*R"],
               [F(7, 2), F(1, 2), F(1, 10)], [F(9, 10), F(1, 10), F(0), F(1)], 15),
        _model("Lotka_Volterra", "Lotka_Volterra", ["x", "y"], ["alpha", "beta", "gamma", "delta"],
               ["alpha*x - beta*x*y", "delta*x*y - gamma*y"],
               [F(1), F(2), F(3), F(3, 2)], [F(2), F(1)], 6),
        _model("FitzHugh", "FitzHugh", ["V", "R"], ["a", "b", "c"],
               ["c*V - 1/3*c*V**3 + c*R", "-V/c + a/c - b*R/c"],
               [F(1, 5), F(1, 5), F(3)], [F(-1), F(1)], 10),
        _model("vanDerPol", "vanDerPol", ["y", "x"], ["mu"],
               ["x", "mu*x - mu*y**2*x - y"],
               [F(3, 2)], [F(2), F(0)], 8),
        _model("SEIR_Birth_Death", "SEIR_Birth_Death", ["S", "E", "I", "R", "N"], ["beta", "alpha", "gamma", "mu"],
               ["-beta*S*I/N + mu*N - mu*S", "beta*S*I/N - alpha*E - mu*E", "alpha*E - gamma*I - mu*I", "gamma*I - mu*R",
                "mu*N - mu*S - mu*E - mu*I - mu*R"],
               [F(3), F(1, 2), F(1, 3), F(1, 10)], [F(9, 10), F(1, 20), F(1, 20), F(0), F(1)], 12),
        _model("Lorenz", "Lorenz", ["x", "y", "z"], ["beta", "sigma", "rho"],
               ["sigma*y - sigma*x", "x*rho - x*z - y", "x*y - beta*z"],
               [F(8, 3), F(10), F(28)], [F(1), F(1), F(1)], F(3, 10)),
        _model("SIS_Periodic", "SIS_Periodic", ["S", "I"], ["gamma", "beta0", "delta", "period", "N"],
               ["-beta0*S*I/N + beta0*delta*cosT*S*I/N + gamma*I", "beta0*S*I/N - beta0*delta*cosT*S*I/N - gamma*I"],
               [F(1, 5), F(1, 2), F(1, 5), F(10), F(1)], [F(9, 10), F(1, 10)], 15, closed=True,
               atoms=[("cosT", "C", "628318/100000*t/period"), ("sinT", "S", "628318/100000*t/period")]),
        _model("SEIR_Birth_Death_Periodic", "SEIR_Birth_Death_Periodic", ["S", "E", "I", "R", "N"],
               ["beta0", "delta", "period", "alpha", "gamma", "mu"],
               ["-beta0*S*I/N + beta0*delta*cosT*S*I/N + mu*N - mu*S", "beta0*S*I/N - beta0*delta*cosT*S*I/N - alpha*E - mu*E",
                "alpha*E - gamma*I - mu*I", "gamma*I - mu*R", "mu*N - mu*S - mu*E - mu*I - mu*R"],
               [F(3), F(1, 5), F(8), F(1, 2), F(1, 3), F(1, 10)], [F(9, 10), F(1, 20), F(1, 20), F(0), F(1)], 12,
               atoms=[("cosT", "C", "628318/100000*t/period"), ("sinT", "S", "628318/100000*t/period")]),
        _model("Influenza_SLIARD", "Influenza_SLIARD", ["S", "L", "I", "A", "R", "D"],
               ["beta", "delta", "N", "kappa", "p", "epsilon", "alpha", "f"],
               ["-beta*S*I/N - beta*delta*S*A/N", "beta*S*I/N + beta*delta*S*A/N - kappa*L",
                "p*kappa*L - alpha*I", "kappa*L - p*kappa*L - epsilon*A", "f*alpha*I + epsilon*A",
                "alpha*I - f*alpha*I"],
               [F(2), F(1, 2), F(1), F(1), F(7, 10), F(1, 2), F(1, 3), F(9, 10)],
               [F(99, 100), F(0), F(1, 100), F(0), F(0), F(0)], 25, closed=True),
    ]
