"""Random model definitions inside the quantifiers of the properties.

A definition is produced in the abstract form of the specification (symbol
table + processes with polynomial rates); it can be serialised for TLC
(``to_json``) and rendered into PyGOM API calls (harness/build.py).  The
normal form of every rate is known by construction -- nothing is parsed on the
oracle side.
"""
from fractions import Fraction
import random

from . import codec
from .codec import Symbols, pmul, padd, psym, pconst, pscale

STATE_NAMES = ["S", "E", "I", "R", "L", "A", "X", "Y", "V", "W", "H", "C", "D", "J"]
PARAM_NAMES = ["beta", "gamma", "alpha", "kappa", "mu", "sigma", "delta", "N", "B", "k", "p", "q",
               "rho", "nu", "epsilon", "omega"]
DERIVED_NAMES = ["d1", "betaD", "kd", "Rzero"]
COEFS = [Fraction(1), Fraction(2), Fraction(3), Fraction(1, 2), Fraction(1, 3), Fraction(1, 25),
         Fraction(3, 5), Fraction(1, 4), Fraction(5)]
SHAPES = ["linear", "mass", "norm", "sat", "exp", "periodic", "const", "two", "quad"]


class Defn:
    """symbol table + ordered processes.

    procs: list of dict(kind='event', rate=poly, trs=[dict(ty,o,d,mag)], route=...)
           or dict(kind='ode', st=i, eqn=poly)
    o, d, st are 1-based state numbers (0 = none)."""

    def __init__(self, sy, derived, procs, lims=None, decl=None):
        self.sy = sy
        self.derived = derived        # list of polys (k-th may use earlier derived symbols)
        self.procs = procs
        self.lims = lims or [(0, None)] * sy.ns
        self.decl = decl or {}

    def events(self):
        return [p for p in self.procs if p["kind"] == "event"]

    def odes(self):
        return [p for p in self.procs if p["kind"] == "ode"]

    def to_json(self, ident, want=(), events=None, odes=None):
        sy = self.sy
        ev = self.events() if events is None else events
        od = self.odes() if odes is None else odes
        return {
            "id": ident, "ns": sy.ns, "np": sy.np, "nd": sy.nd, "n": sy.n,
            "atoms": [{"idx": sy.idx_atom(k), "kind": a["kind"], "arg": codec.terms(a["arg"]),
                       "pair": a["pair"]} for k, a in enumerate(sy.atoms)],
            "derived": [codec.terms(p) for p in self.derived],
            "events": [{"rate": codec.terms(e["rate"]),
                        "trs": [{"ty": t["ty"], "o": t["o"], "d": t["d"], "mag": codec.terms(t["mag"])}
                                for t in e["trs"]]} for e in ev],
            "odes": [{"st": o["st"], "eqn": codec.terms(o["eqn"])} for o in od],
            "want": list(want),
        }

    def describe(self):
        sy = self.sy
        r = lambda p: codec.render(sy, p)
        d = {"states": sy.states, "params": sy.params,
             "derived": [(n, r(p)) for n, p in zip(sy.derived, self.derived)],
             "procs": []}
        for p in self.procs:
            if p["kind"] == "event":
                d["procs"].append({"rate": r(p["rate"]), "route": p.get("route", "E"),
                                   "trs": [(t["ty"], t["o"], t["d"], r(t["mag"])) for t in p["trs"]]})
            else:
                d["procs"].append({"ode": p["st"], "eqn": r(p["eqn"])})
        return d


def _pick_names(rng, ns, np_, range_style):
    if range_style and ns >= 2:
        states = ["y%d" % (i + 1) for i in range(ns)]
    else:
        states = rng.sample(STATE_NAMES, ns)
    params = rng.sample(PARAM_NAMES, np_)
    return states, params


def random_defn(rng, ns=None, np_=None, ne=None, shapes=None, closed=False, allow_odes=True,
                allow_derived=True, range_style=None, symbolic_mag=True, integer_mag=True,
                max_trs=3, types=("T", "B", "D"), nonsymmetric=False):
    """One random definition.  All sizes inside 1..5 / 0..5 as the properties state."""
    ns = ns or rng.randint(1, 5)
    np_ = np_ or rng.randint(1, 5)
    if nonsymmetric and ns == np_:
        np_ = np_ + 1 if np_ < 5 else np_ - 1
    ne = rng.randint(0, 5) if ne is None else ne
    shapes = list(shapes or SHAPES)
    if range_style is None:
        range_style = rng.random() < 0.15
    states, params = _pick_names(rng, ns, np_, range_style)
    nd = rng.choice([0, 0, 1, 2]) if allow_derived else 0
    dnames = DERIVED_NAMES[:nd]

    # decide atoms first (they are part of the symbol table)
    atoms_spec = []
    n_plain = ns + 1 + np_ + nd

    def plain(j, e=1):      # polynomial over plain symbols only, padded later
        return psym(j, n_plain, e)

    want_atoms = [s for s in ("sat", "exp", "periodic") if s in shapes and rng.random() < 0.45]
    for s in want_atoms:
        a = rng.randrange(np_)
        if s == "periodic":
            arg = pmul(plain(ns + 2 + a), plain(ns + 1))           # w*t
            atoms_spec.append(("C", arg))
            atoms_spec.append(("S", arg))
        else:
            x = rng.randrange(ns)
            arg = pmul(plain(ns + 2 + a), plain(x + 1))            # a*X
            if rng.random() < 0.3:
                arg = pscale(rng.choice([Fraction(2), Fraction(1, 2)]), arg)
            atoms_spec.append(("H" if s == "sat" else "E", arg))
    n = n_plain + len(atoms_spec)
    atoms = []
    for k, (kind, arg) in enumerate(atoms_spec):
        pair = 0
        if kind == "C":
            pair = n_plain + k + 2
        elif kind == "S":
            pair = n_plain + k
        atoms.append({"kind": kind, "arg": codec.ppad(arg, n), "pair": pair})
    sy = Symbols(states, params, dnames, atoms)

    def st(i):
        return psym(sy.idx_state(i), n)

    def pa(k):
        return psym(sy.idx_param(k), n)

    # derived parameters: products / quotients / affine combinations of parameters
    derived = []
    for k in range(nd):
        a, b = rng.randrange(np_), rng.randrange(np_)
        form = rng.choice(["prod", "quot", "affine", "chain"] if k > 0 else ["prod", "quot", "affine"])
        if form == "prod":
            p = pmul(pa(a), pa(b))
        elif form == "quot":
            p = pmul(pa(a), psym(sy.idx_param(b), n, -1)) if a != b else pscale(2, pa(a))
        elif form == "affine":
            p = pmul(padd(pconst(1, n), pscale(-1, pa(a))), pa(b))      # (1-p)*kappa
        else:
            p = pmul(psym(sy.idx_derived(k - 1), n), pa(a))            # uses the previous derived symbol
        derived.append(p)

    atom_idx = {}
    for k, a in enumerate(atoms):
        atom_idx.setdefault(a["kind"], []).append(sy.idx_atom(k))

    def theta():
        """a parameter, or a derived parameter, as rate constant"""
        if nd and rng.random() < 0.35:
            return psym(sy.idx_derived(rng.randrange(nd)), n)
        return pa(rng.randrange(np_))

    def rate(origin_state=None):
        shape = rng.choice(shapes)
        x = origin_state if origin_state is not None else rng.randrange(ns)
        y = rng.randrange(ns)
        c = rng.choice(COEFS) if rng.random() < 0.3 else Fraction(1)
        if shape == "sat" and "H" not in atom_idx:
            shape = "mass"
        if shape == "exp" and "E" not in atom_idx:
            shape = "linear"
        if shape == "periodic" and "C" not in atom_idx:
            shape = "norm"
        if shape == "linear":
            p = pmul(theta(), st(x))
        elif shape == "mass":
            p = pmul(theta(), pmul(st(x), st(y)))
        elif shape == "norm":
            p = pmul(pmul(theta(), pmul(st(x), st(y))), psym(sy.idx_param(rng.randrange(np_)), n, -1))
        elif shape == "sat":
            p = pmul(pmul(theta(), st(x)), psym(rng.choice(atom_idx["H"]), n))
        elif shape == "exp":
            p = pmul(pmul(theta(), st(x)), psym(rng.choice(atom_idx["E"]), n))
        elif shape == "periodic":
            cs = psym(rng.choice(atom_idx["C"] + atom_idx["S"]), n)
            amp = padd(pconst(1, n), pscale(rng.choice([Fraction(1, 2), Fraction(-1, 4), Fraction(3, 5)]), cs))
            p = pmul(pmul(theta(), pmul(st(x), st(y))), amp)
        elif shape == "const":
            p = theta()
        elif shape == "two":
            p = padd(pmul(theta(), st(x)), pscale(rng.choice(COEFS), pmul(pa(rng.randrange(np_)), pmul(st(x), st(y)))))
        elif shape == "quad":
            p = pmul(theta(), pmul(st(x), st(x)))
        else:
            raise ValueError(shape)
        return pscale(c, p)

    def magnitude():
        r = rng.random()
        if symbolic_mag and r < 0.2:
            return pa(rng.randrange(np_))
        if symbolic_mag and nd and r < 0.25:
            return psym(sy.idx_derived(rng.randrange(nd)), n)
        if integer_mag and r < 0.6:
            return pconst(rng.choice([2, 3]), n)
        return pconst(1, n)

    def transition(tys):
        ty = rng.choice([t for t in tys if not (t == "T" and ns < 2)] or ["B", "D"])
        if ty == "T":
            o, d = rng.sample(range(1, ns + 1), 2)
        elif ty == "B":
            o, d = 0, rng.randint(1, ns)
        else:
            o, d = rng.randint(1, ns), 0
        return {"ty": ty, "o": o, "d": d, "mag": magnitude()}

    procs = []
    tys = ("T",) if closed else types
    for _ in range(ne):
        ntr = rng.choice([1, 1, 1, 2, 2, 3][:max(1, 2 * max_trs)]) if max_trs > 1 else 1
        ntr = min(ntr, max_trs)
        trs = [transition(tys) for _ in range(ntr)]
        o0 = trs[0]["o"] - 1 if trs[0]["o"] else None
        procs.append({"kind": "event", "rate": rate(o0), "trs": trs, "route": "E"})
    if allow_odes and not closed and rng.random() < 0.4:
        for _ in range(rng.randint(1, 2)):
            procs.append({"kind": "ode", "st": rng.randint(1, ns),
                          "eqn": pscale(rng.choice([1, -1, Fraction(1, 2)]), rate())})
    rng.shuffle(procs)
    decl = {"range": bool(range_style and ns >= 2)}
    return Defn(sy, derived, procs, decl=decl)


def random_point(rng, sy, positive=True):
    """pairwise distinct dyadic values for states, t, parameters (derived left 0: they are substituted)"""
    k = rng.sample(range(3, 40), sy.ns + 1 + sy.np)
    vals = [Fraction(v, 8) for v in k]
    return vals + [Fraction(0)] * sy.nd
