"""Regenerate /verif/MANIFEST.json from the table below (python3 engine/manifest.py)."""
import json
import os

VERIF = os.path.dirname(os.path.dirname(os.path.abspath(__file__)))

CHECKS = {
    "C01": dict(
        technique="TLA+ spec (Poly/ModelSem/ModelDef) + TLC exhaustive small scope; TLC-generated API histories "
                  "replayed into PyGOM; TLC as oracle for random full-size definitions",
        level="model_checking",
        text="TLC explores every API history of MC_ModelDef (all routes, orders, constructor vs add_*) and checks "
             "Ode = V.R + explicit terms on each; every visited live state on the event routes is replayed into a "
             "real SimulateOde and its symbolic and compiled ode/vMat/eventRateVector/pureOdeVector/reactant matrix "
             "compared with the state's normal forms; beyond that scope the same specification operators are "
             "evaluated by TLC on random definitions of the property's full size and compared the same way "
             "(lambda back-end for all, Cython back-end for a sample).",
        design="5 C01, 3.1-3.2",
        note="Identity of PyGOM's symbolic output with the spec normal form is decided by 30-digit evaluation at "
             "random rational points (can only miss, never invent a difference); numeric tolerance 1e-9 relative "
             "to the sum of |terms|; harness renders rate strings from spec terms."),
    "C03": dict(
        technique="TLA+ spec differentiates its own normal forms (Poly.PDiff with atoms); TLC exhaustive replay + "
                  "TLC oracle on random non-symmetric definitions",
        level="model_checking",
        text="Jacobian, gradient, second derivatives, gradient-Jacobian and the tau-leap statistics are derived by "
             "the specification from its ODE, R and V; compared with PyGOM's symbolic and compiled objects for every "
             "live state of MC_ModelDef on event routes and for random non-symmetric full-size definitions.",
        design="5 C03",
        note="As C01; outputs are compared after reshaping to the documented shape."),
}

CHECKS.update({
    "C08": dict(
        technique="TLA+ refinement EvalCache => PygomModel checked by TLC (with negative control) and, for unbounded "
                  "histories, by an Apalache inductive invariant; TLC-generated behaviours (exhaustive directed family + "
                  "simulation) replayed into a live SimulateOde",
        level="model_checking",
        text="TLC checks for every interleaving of 6 mutator kinds and 4 evaluators that the canary design returns the "
             "current definition version (and finds the stale read when add_ode does not trip).  The code is bound at "
             "the abstract level: PygomModel behaviours carry the expected normal form of every evaluation; an "
             "exhaustive directed family [bind; evaluate e; one mutation of any kind by any route; evaluate e] covers "
             "all 88 (mutator kind, evaluator) pairs, simulation adds long mixed histories; every evaluation is "
             "compared with the carried normal form and with a freshly constructed model.",
        design="5 C08, 3.4",
        note="Evaluators are the 11 canary-tracked ones; evaluation is compared only where every declared parameter "
             "is bound; lambda back-end for all behaviours, default Cython back-end for a few."),
    "C09": dict(
        technique="TLA+ spec ParamBind explored exhaustively by TLC; every generated assignment history replayed "
                  "into a fresh model",
        level="model_checking",
        text="Every history of parameter assignments up to the bound (all accepted forms, every permutation of "
             "(name, value) pairs, every subset of a partial dict with str or Symbol keys, every rejection kind) is "
             "enumerated by TLC with BoundToName / RejectedBindsNothing / PartialKeepsOthers checked, and each "
             "maximal history is performed on a real model whose rate vector theta_k * X_k exposes each binding; "
             "longer histories by simulation.  A second menu adds dicts that bind names to distributions (frozen / "
             "(sampler, args)), the calls that re-draw them (integrate, integrate2, solve_stochast) and bindings built "
             "from partial dicts alone (RandomIffDistribution, NumberEndsRedrawing, IntegrateKeepsBinding); a bystander "
             "model bound with the same dict object must not see what is later done to the first.",
        design="5 C09, 3.3",
        note="The bare-number form of one-parameter models is not in the property's list of accepted forms (and "
             "raises TypeError on the pinned tree); it is specified but not judged.  Duplicate names in a pair list "
             "are outside the quantifier."),
    "C12": dict(
        technique="TLA+ spec ModelDef (ghost process multiset, route-independence invariants) checked by TLC; all "
                  "visited histories replayed into PyGOM; TLC oracle for random route/order variants",
        level="model_checking",
        text="TLC checks InvRouteIndependent / InvVRRouteIndependent over every route assignment and order in small "
             "scope; every visited live state (Event, Transition-as-event, Event whose transition carries the rate, "
             "legacy lists, births by origin or destination, explicit ODE terms, constructor vs add_*) is replayed "
             "into a real SimulateOde and compared; random full-size process sets are built in several random "
             "variants each and compared with the ODE the specification derives for the process set.",
        design="5 C12, 3.2",
        note="As C01."),
})

CHECKS.update({
    "C02": dict(
        technique="TLA+ protocol spec Integrator (buffer identity, copy vs alias) checked by TLC with negative control; "
                  "step-by-step traces of every deterministic entry point validated by TLC against a reference "
                  "solution of the specification's right-hand side",
        level="model_checking",
        text="TLC shows that for every method, full_output, includeOrigin and either in-place or replacing behaviour of "
             "the integrator buffer the returned rows are the requested points and never change iff the wrapper copies "
             "them (counterexample without the copy).  Every entry point x method x output option is run on random "
             "bounded-rate and catalogue models; the rows observed after every step and the returned table are "
             "validated by TLC (row count, origin row, immutability, |row - ref| <= tol); a set-up event binds the callables handed "
             "to scipy to the specification's f and df/dx (orientation included); grids containing the initial time or a repeated "
             "time and initial times other than 0 are generated; on a stiff instance explicit methods must refuse (Refuse action) "
             "and any returned row is validated against a Radau reference.",
        design="5 C02, 3.6, 4.3",
        note="Trusted base: scipy DOP853 (rtol 1e-12) on the spec-derived right-hand side; catalogue transcriptions in "
             "engine/catalogue.py; tolerances 1e-5 / 1e-7 relative (two orders above the code's solver settings)."),
    "C04": dict(
        technique="TLA+ stepping machine Jump checked exhaustively by TLC (safety + liveness); recorded attempts of "
                  "real runs validated event by event by TLC (TR_Jump) with V recomputed by the specification",
        level="model_checking",
        text="MC_Jump instances (closed SIR, births with upper limit, single event, single state magnitude 2, "
             "multi-transition with two-sided limits): WalkLaw, TimeStrict, one event per exact step, StopSound, "
             "Terminates.  Real runs (exact / tau-leap, raw / gridded, fixed tau, epsilon) of random event models incl. "
             "single-event and single-state shapes are recorded attempt by attempt from outside and accepted only if "
             "every step is an enabled Jump action with x' = x + V.counts.",
        design="5 C04, 3.7",
        note="Wrappers see every attempt of _jump; a run slower than 20 s that still advances time is discarded; rates "
             "are polynomial / Laurent so that TLC evaluates them exactly in Q."),
    "C05": dict(
        technique="TLC trace validation of the first-reaction mechanism (intercepted exponential draws vs spec rates in Q) "
                  "+ exact-law statistics on TLC-enumerated jump chains",
        level="model_checking",
        text="Every exact step of recorded runs must show one exponential clock per positive-rate event with "
             "scale*rate = 1 (rate = specification polynomial evaluated exactly), none for zero-rate events, chosen event "
             "= unique minimum, waiting time = that minimum, draws from the global stream; the first-reaction theorem "
             "then gives the law for every stream.  Second line: SIR final-size law (jump chain enumerated by TLC, exact "
             "Fractions) and linear-chain occupancy against exact binomial acceptance regions (false alarm < 1e-8), also through "
             "the per-run call of the parallel route (one generator per draw), through the rows returned for a vector of "
             "times (array / list / tuple; before and far past absorption), with two-sided limits every reachable state "
             "satisfies and with a death-type step.  The simulated model object is also extended (add_*) and simulated again.",
        design="5 C05",
        note="numpy's exponential sampler trusted; if the draw pattern is not first-reaction shaped the mechanism is not "
             "judged and only the law test applies."),
    "C10": dict(
        technique="TLC invariants ClosedConserves (ModelDef) and Conservation (Jump) + TLC oracle on random closed "
                  "definitions + TLC trace validation of deterministic and stochastic runs of closed models",
        level="model_checking",
        text="Symbolic clause: the specification's ODE components sum to the zero polynomial for transition-only "
             "definitions (exhaustive small scope; random full size incl. atoms, compared with PyGOM's report).  "
             "Deterministic clause: TR_Integrator requires |sum(row) - sum(x0)| <= tol on every observed row of closed "
             "models.  Stochastic clause: TR_Jump requires exact equality of the total on every recorded state; closed models with "
             "fractional magnitudes (outside the integer trace format) are judged directly on every reported state vector.",
        design="5 C10",
        note="Deterministic tolerance as C02."),
    "C11": dict(
        technique="TLC exhaustive (InLimits, RejectedStepChangesNothing) + Apalache inductive invariant for unbounded "
                  "populations + complete case table of the limit test + TLC trace validation of recorded runs",
        level="model_checking",
        text="Jump.tla instances cover lower / upper / two-sided / absent limits; the complete table limit kind x value "
             "position for two states is replayed on _checkJump; recorded runs are rejected by TLC when a state is "
             "outside its declared limits, an out-of-limit step was accepted, a legal step was rejected, or a rejected "
             "step changed state or time.",
        design="5 C11",
        note="States that occur in a rate keep a lower limit >= 0 (inside the bounded non-negative rate quantifier)."),
    "C15": dict(
        technique="TLC GridLaw on every explored path + TLC trace validation of gridded output against the raw path of "
                  "the same run",
        level="model_checking",
        text="Grid operators RowAt / CountsIn are defined in Jump.tla and the identity row(g2) = row(g1) + V.counts is "
             "checked on every explored path; for real gridded runs the recorder keeps the raw path of the same run and "
             "TLC requires one row per requested time, first row = x0, exact mode: row k = RowAt, counts = CountsIn per "
             "event, consecutive rows differing by V.counts.  A table whose run was rejected upstream is judged on its own "
             "(TrGriddedAlone).",
        design="5 C15",
        note="Ties between event and grid times (probability 0) are discarded."),
})

CHECKS.update({
    "C13": dict(
        technique="TLA+ spec SensLayout (augmented systems over an extended symbol table; block assembly vs derivative) "
                  "checked by TLC with negative control; TLC oracle for random definitions; integrated systems validated "
                  "step by step by TLC (TR_Integrator) against the specification's variational equations",
        level="model_checking",
        text="TLC checks on every selection from four menus (2x3 with atom and Laurent rate, 3x1, 1x2, 2x0) that the "
             "block Jacobians the code assembles equal the derivative of f + vec(J.S+G) + vec(J.Z) in the by-parameter, "
             "by-state and initial-value arrangements, that every arrangement is a re-indexing of the largest, and the "
             "layout laws (the pinned by_state assembly is the negative control).  For random non-symmetric definitions "
             "incl. parameter-free and single-state ones the specification's augmented right-hand sides and Jacobians are "
             "compared entry by entry with ode_and_sensitivity (both arrangements), ode_and_sensitivityIV and the three "
             "*_jacobian functions.  The three systems are integrated through PyGOM's stepping wrapper with all methods; "
             "TLC validates every observed row against the reference solution of the specification's system, which is "
             "itself compared with central finite differences of reference solutions.",
        design="5 C13, 3.5",
        note="Trusted base as C02; tolerance 1e-6 (1+max|ref|) for integrated rows, 1e-9 relative to the sum of |terms| "
             "for point evaluations."),
})

CHECKS.update({
    "C06": dict(
        technique="TLA+ spec LossWiring (wirings, registers, recipes) checked exhaustively by TLC; TLC-generated behaviours "
                  "(scripted family over every wiring + simulation) replayed into real loss objects against reference "
                  "trajectories of the specification's ODE",
        level="model_checking",
        text="TLC enumerates every ordered selection of observed states, target parameters, target states and weight shape "
             "(16128 wirings for 3x3) with the register laws and the recipes row i <-> time i, column j <-> j-th named state, "
             "source of each weight / spread value.  For every wiring of several sizes TLC emits the script cost(v); "
             "residual(); costIV(v+x); cost(); residual(v); residualIV(); costIV(x only); cost() with the registers each call "
             "must use; simulation adds random histories.  Each behaviour is performed on a real loss object (five classes, "
             "spreads and weights in every accepted shape) and compared with the class's reference kernel on the reference "
             "trajectory; square-loss cost at the generating parameters is bounded separately.",
        design="5 C06, 3.9, 4.3",
        note="Trusted base: scipy DOP853 on the specification's right-hand side; scipy.stats log densities; tolerance 1e-6 "
             "relative to the sum of |cell losses|.  Poisson / Gamma / NegBinom are used where the clean trajectory stays "
             "above 5% of its scale."),
    "C07": dict(
        technique="TLA+ spec LossWiring + SensLayout: column selection = recipe checked by TLC (negative control: sorted "
                  "columns); TLC-generated behaviours replayed; expected gradient = LossKernel D1 normal forms x reference "
                  "sensitivities named by the recipe",
        level="model_checking",
        text="InvColumnsP / InvColumnsIV: the columns the implementation selects carry, for the k-th free variable in SUPPLIED "
             "order and the j-th named state, the sensitivity symbol of SensLayout.  Script sensitivity(v); jac(); "
             "sensitivityIV(v+x); jacIV(); gradient(); jac(v); sensitivityIV(x only); sensitivity() on every wiring + simulated "
             "histories; every gradient entry, jac / jacIV column is compared with the chain rule through the specification's "
             "kernel derivative and the reference solution of the specification's augmented systems.",
        design="5 C07, 3.9, 3.5",
        note="Tolerance 1e-5 relative to the sum of |terms| + 1e-8; non-unit weights only for square / normal loss (as the "
             "property states)."),
    "C20": dict(
        technique="TLA+ spec LossWiring + SensLayout.AugFF (second-order system = total theta-derivative of the first-order "
                  "system, symmetry checked by TLC); TLC-generated behaviours replayed; known-finding classification by the "
                  "specification's GradJac / parameter-Hessian normal forms",
        level="model_checking",
        text="jtj = sum over cells of w^2 s_k s_l with reference sensitivities named by the recipe, symmetric, PSD.  hessian "
             "(square loss, unit weights) = 2 jtj + sum over cells D1 . h_kl with reference second-order sensitivities; half of "
             "the hessian cases use additive-parameter models where the specification shows that the mixed terms vanish "
             "identically, so the known omission cannot explain a mismatch.",
        design="5 C20, 3.9",
        note="Known finding D9 (mixed state-parameter terms omitted) is keyed by 'mixed-terms-present' as decided from the "
             "specification's normal forms; any mismatch where they vanish, and any jtj mismatch, is a violation."),
})

CHECKS.update({
    "C16": dict(
        technique="TLA+ spec Rng (one global stream; outputs a function of seed, calls since seeding, configuration) checked "
                  "exhaustively by TLC with two negative controls; TLC-generated session scripts performed on real models and "
                  "validated by TLC (TR_Rng)",
        level="model_checking",
        text="MC_Rng: every history of seedings and runs in small scope satisfies Reproducible and SeedSensitive when every "
             "source is the global stream; a fresh or constant-seeded local generator behind one configuration is found by TLC.  "
             "Session scripts generated from the same specification (3 seeds, 8 configurations: exact / tau-leap, raw / gridded, "
             "simulate_param / solve_determ with frozen and (sampler, args) random parameters, stochastic runs with random "
             "parameters) are performed; TR_Rng accepts a session only if equal (seed, calls since seeding, configuration) give "
             "equal output digests and equal global-generator states, different seeds give different continuous outputs, no "
             "non-global generator is created during a serial call and the reported mean is the mean of the returned runs.",
        design="5 C16, 3.8",
        note="Outputs compared by SHA-256; numpy's seeding assumed deterministic; models are closed (bounded rates) so that "
             "every run terminates."),
})

CHECKS.update({
    "C17": dict(
        technique="TLA+ spec Abc (generations, strict acceptance, tolerance schedules, continue, restart) checked exhaustively by TLC with "
                  "negative control; recorded ABC sessions validated event by event by TLC (TR_Abc) on cost / tolerance ranks",
        level="model_checking",
        text="MC_Abc for rejection, tolerance-list and quantile scheduling incl. continue: AcceptedUnderTol, "
             "TolerancesNeverIncrease, PosteriorComplete, NothingSurvivesARestart (relaxed acceptance is found by TLC).  Real sessions (SIR, Lotka-Volterra; "
             "square / normal loss; uniform / gamma / normal priors; log scale; parameter lists ordered unlike the model; an "
             "initial value as free variable, with or without a population constraint; nearest-neighbour kernels; get + continue at "
             "the proposed or a tighter tolerance + a fresh run with a smaller population on the same object) are recorded through a wrapper on "
             "ABC._perform_generation and accepted only if every particle of every generation is a trial the specification "
             "accepts (prior positive by the specification's prior table, cost rank strictly below the tolerance rank), has a "
             "positive finite weight and a stored distance equal to the cost recomputed by a fresh loss object, and the "
             "posterior after the call is the last generation under the final tolerance.",
        design="5 C17, 3.10",
        note="Ranks make every order comparison exact; runs ending in numpy LinAlgError (documented small-N limitation) or "
             "exceeding 150 s are discarded."),
})

CHECKS.update({
    "C18": dict(
        technique="TLA+ spec Fit (configuration matrix, bounds-packing law, post-condition; optimiser as environment): TLC "
                  "enumerates the matrix and evaluates FitPost on the recorded outcome of every configuration run on a real loss object",
        level="exploration",
        text="TLC checks that the Fortran-order reshape used to pack lb / ub yields one (lower, upper) pair per variable (the "
             "C-order reshape does not) and enumerates 1720 configurations (6 catalogue models x 5 loss classes x ordered "
             "selections of <= 2 free parameters x start interior / on lower / on upper bound / at the generating values x tight / "
             "wide box).  Each configuration run returns ranks per coordinate and of the start / result costs recomputed from the "
             "reference trajectory; TLC accepts the outcome only if it satisfies FitPost (inside the box, not worse than the start, "
             "generating parameters returned when started there on noise-free data).  The shared model object is given a "
             "history before the fit (mixed assignment styles, another loss object, a random binding then numbers).",
        design="5 C18, 3.9",
        note="The optimiser is not modelled, so this is exploration of the configuration matrix, not a proof; quick tier runs three "
             "configurations per model x class x start."),
})

NOT_APPLICABLE = {
    "C14": "stateless real-valued kernels (log/lgamma): no transitions or histories for a TLA+ model to decide; "
           "the decisive comparison is floating-point agreement with reference densities, a different technique "
           "(DESIGN section 6)",
    "C19": "thin numeric wrappers around scipy.stats; d/p/q correctness is numeric agreement with special functions, "
           "not a state-machine property (DESIGN section 6)",
}

NOT_BUILT = {}

ALL = ["C%02d" % i for i in range(1, 21)]


def main():
    checks = []
    for pid in ALL:
        if pid not in CHECKS:
            continue
        c = CHECKS[pid]
        checks.append({
            "property_id": pid,
            "quick_cmd": "./check %s --tier quick" % pid,
            "thorough_cmd": "./check %s --tier thorough" % pid,
            "evidence_file": "evidence/%s.json" % pid,
            "replay_cmd_template": "./check %s --replay {path}" % pid,
            "engine": "tlc",
            "level_claimed": {"category": c["level"], "text": c["text"], "design_ref": c["design"]},
            "level_note": c["note"],
            "technique": c["technique"],
        })
    na = []
    for pid in ALL:
        if pid in CHECKS:
            continue
        if pid in NOT_APPLICABLE:
            na.append({"property_id": pid, "reason": NOT_APPLICABLE[pid]})
        else:
            na.append({"property_id": pid, "reason": NOT_BUILT.get(
                pid, "check not built yet in this round (planned in DESIGN section 5); not claimed until it runs")})
    man = {
        "version": 1,
        "setup_cmd": "./setup.sh",
        "hooks": {
            "guard": "PYGOM_VERIF",
            "enable": "no source hooks: harness/instrument.py wraps module-level callables from outside when "
                      "PYGOM_VERIF=1 (set by ./check); PyGOM is imported from /repo/src of the current working tree",
            "baseline_off_cmd": "cd /repo && /venv/bin/python -m pytest -ra -q -p no:cacheprovider --timeout=900 "
                                "--continue-on-collection-errors",
            "source_commits": [],
            "add_only": True,
        },
        "engines": [
            {"name": "tlc", "path": "spec/", "serves_properties": [p for p in ALL if p in CHECKS],
             "kind_free_text": "TLA+ specification (Poly, ModelSem, ModelDef, ParamBind, PygomModel, EvalCache, SensLayout, "
                               "Integrator, Jump, LossWiring, LossKernel, Rng, Abc, Fit; MC_*, OR_*, TR_*) checked with TLC 1.8; "
                               "conformance harness in harness/ and checks/"},
            {"name": "apalache", "path": "spec/APA_EvalCache.tla, spec/APA_JumpLimits.tla", "serves_properties": ["C08", "C11"],
             "kind_free_text": "Apalache 0.58 discharges the inductive invariant of the canary design for unbounded histories "
                               "(C08) and of the limit discipline of the stochastic stepper for unbounded populations (C11)"},
        ],
        "checks": checks,
        "not_applicable": na,
        "notes": "Every check: ./check <ID> [--tier quick|thorough] [--replay path] [--selftest]; exit 0 pass, "
                 "1 VIOLATION, 2 machinery failure.  known_findings.json lists recorded defects.",
    }
    with open(os.path.join(VERIF, "MANIFEST.json"), "w") as f:
        json.dump(man, f, indent=1)
    print("wrote MANIFEST.json with %d checks, %d not_applicable" % (len(checks), len(na)))


if __name__ == "__main__":
    main()
