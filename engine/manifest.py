"""Regenerate /verif/MANIFEST.json from the table below (python3 engine/manifest.py)."""
import json
import os

VERIF = os.path.dirname(os.path.dirname(os.path.abspath(__file__)))

CHECKS = {
    "C01": dict(
        technique="TLA+ spec (Poly/ModelSem/ModelDef) + TLC exhaustive small scope; TLC-generated API histories "
                  "replayed into PyGOM; TLC as oracle for random full-size definitions",
        level="model_checking",
        text="TLC explores every API history of MC_ModelDef (all routes, orders, constructor vs add_*) and checks "
             "Ode = V.R + explicit terms on each; every visited live state on the event routes is replayed into a "
             "real SimulateOde and its symbolic and compiled ode/vMat/eventRateVector/pureOdeVector/reactant matrix "
             "compared with the state's normal forms; beyond that scope the same specification operators are "
             "evaluated by TLC on random definitions of the property's full size and compared the same way "
             "(lambda back-end for all, Cython back-end for a sample).",
        design="5 C01, 3.1-3.2",
        note="Identity of PyGOM's symbolic output with the spec normal form is decided by 30-digit evaluation at "
             "random rational points (can only miss, never invent a difference); numeric tolerance 1e-9 relative "
             "to the sum of |terms|; harness renders rate strings from spec terms."),
    "C03": dict(
        technique="TLA+ spec differentiates its own normal forms (Poly.PDiff with atoms); TLC exhaustive replay + "
                  "TLC oracle on random non-symmetric definitions",
        level="model_checking",
        text="Jacobian, gradient, second derivatives, gradient-Jacobian and the tau-leap statistics are derived by "
             "the specification from its ODE, R and V; compared with PyGOM's symbolic and compiled objects for every "
             "live state of MC_ModelDef on event routes and for random non-symmetric full-size definitions.",
        design="5 C03",
        note="As C01; outputs are compared after reshaping to the documented shape."),
}

CHECKS.update({
    "C08": dict(
        technique="TLA+ refinement EvalCache => PygomModel checked by TLC (with negative control); TLC-generated "
                  "behaviours (exhaustive directed family + simulation) replayed into a live SimulateOde",
        level="model_checking",
        text="TLC checks for every interleaving of 6 mutator kinds and 4 evaluators that the canary design returns the "
             "current definition version (and finds the stale read when add_ode does not trip).  The code is bound at "
             "the abstract level: PygomModel behaviours carry the expected normal form of every evaluation; an "
             "exhaustive directed family [bind; evaluate e; one mutation of any kind by any route; evaluate e] covers "
             "all 88 (mutator kind, evaluator) pairs, simulation adds long mixed histories; every evaluation is "
             "compared with the carried normal form and with a freshly constructed model.",
        design="5 C08, 3.4",
        note="Evaluators are the 11 canary-tracked ones; evaluation is compared only where every declared parameter "
             "is bound; lambda back-end for all behaviours, default Cython back-end for a few."),
    "C09": dict(
        technique="TLA+ spec ParamBind explored exhaustively by TLC; every generated assignment history replayed "
                  "into a fresh model",
        level="model_checking",
        text="Every history of parameter assignments up to the bound (all accepted forms, every permutation of "
             "(name, value) pairs, every subset of a partial dict with str or Symbol keys, every rejection kind) is "
             "enumerated by TLC with BoundToName / RejectedBindsNothing / PartialKeepsOthers checked, and each "
             "maximal history is performed on a real model whose rate vector theta_k * X_k exposes each binding; "
             "longer histories by simulation.",
        design="5 C09, 3.3",
        note="The bare-number form of one-parameter models is not in the property's list of accepted forms (and "
             "raises TypeError on the pinned tree); it is specified but not judged.  Duplicate names in a pair list "
             "are outside the quantifier."),
    "C12": dict(
        technique="TLA+ spec ModelDef (ghost process multiset, route-independence invariants) checked by TLC; all "
                  "visited histories replayed into PyGOM; TLC oracle for random route/order variants",
        level="model_checking",
        text="TLC checks InvRouteIndependent / InvVRRouteIndependent over every route assignment and order in small "
             "scope; every visited live state (Event, Transition-as-event, Event whose transition carries the rate, "
             "legacy lists, births by origin or destination, explicit ODE terms, constructor vs add_*) is replayed "
             "into a real SimulateOde and compared; random full-size process sets are built in several random "
             "variants each and compared with the ODE the specification derives for the process set.",
        design="5 C12, 3.2",
        note="As C01."),
})

NOT_APPLICABLE = {
    "C14": "stateless real-valued kernels (log/lgamma): no transitions or histories for a TLA+ model to decide; "
           "the decisive comparison is floating-point agreement with reference densities, a different technique "
           "(DESIGN section 6)",
    "C19": "thin numeric wrappers around scipy.stats; d/p/q correctness is numeric agreement with special functions, "
           "not a state-machine property (DESIGN section 6)",
}

NOT_BUILT = {}

ALL = ["C%02d" % i for i in range(1, 21)]


def main():
    checks = []
    for pid in ALL:
        if pid not in CHECKS:
            continue
        c = CHECKS[pid]
        checks.append({
            "property_id": pid,
            "quick_cmd": "./check %s --tier quick" % pid,
            "thorough_cmd": "./check %s --tier thorough" % pid,
            "evidence_file": "evidence/%s.json" % pid,
            "replay_cmd_template": "./check %s --replay {path}" % pid,
            "engine": "tlc",
            "level_claimed": {"category": c["level"], "text": c["text"], "design_ref": c["design"]},
            "level_note": c["note"],
            "technique": c["technique"],
        })
    na = []
    for pid in ALL:
        if pid in CHECKS:
            continue
        if pid in NOT_APPLICABLE:
            na.append({"property_id": pid, "reason": NOT_APPLICABLE[pid]})
        else:
            na.append({"property_id": pid, "reason": NOT_BUILT.get(
                pid, "check not built yet in this round (planned in DESIGN section 5); not claimed until it runs")})
    man = {
        "version": 1,
        "setup_cmd": "./setup.sh",
        "hooks": {
            "guard": "PYGOM_VERIF",
            "enable": "no source hooks: harness/instrument.py wraps module-level callables from outside when "
                      "PYGOM_VERIF=1 (set by ./check); PyGOM is imported from /repo/src of the current working tree",
            "baseline_off_cmd": "cd /repo && /venv/bin/python -m pytest -ra -q -p no:cacheprovider --timeout=900 "
                                "--continue-on-collection-errors",
            "source_commits": [],
            "add_only": True,
        },
        "engines": [
            {"name": "tlc", "path": "spec/", "serves_properties": [p for p in ALL if p in CHECKS],
             "kind_free_text": "TLA+ specification (Poly, ModelSem, ModelDef, ...) checked with TLC 1.8; "
                               "conformance harness in harness/ and checks/"},
        ],
        "checks": checks,
        "not_applicable": na,
        "notes": "Every check: ./check <ID> [--tier quick|thorough] [--replay path] [--selftest]; exit 0 pass, "
                 "1 VIOLATION, 2 machinery failure.  known_findings.json lists recorded defects.",
    }
    with open(os.path.join(VERIF, "MANIFEST.json"), "w") as f:
        json.dump(man, f, indent=1)
    print("wrote MANIFEST.json with %d checks, %d not_applicable" % (len(checks), len(na)))


if __name__ == "__main__":
    main()
