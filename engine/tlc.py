"""Run TLC / SANY from Python and parse what they report.

Every call gets its own metadir under a scratch directory outside /repo and
/verif (``$TMPDIR`` or /tmp), which is removed afterwards.
"""
import json
import os
import re
import shutil
import subprocess
import tempfile
import time

VERIF = os.path.dirname(os.path.dirname(os.path.abspath(__file__)))
SPEC = os.path.join(VERIF, "spec")
JAR = "/opt/veriftools/tla/tla2tools.jar"
CM = "/opt/veriftools/tla/CommunityModules-deps.jar"


class TLCError(Exception):
    """TLC itself failed (parse error, evaluation error, timeout): machinery, never a violation."""


def scratch_dir(prefix="pygomverif_"):
    base = os.environ.get("TMPDIR", "/tmp")
    return tempfile.mkdtemp(prefix=prefix, dir=base)


class Result:
    def __init__(self, out, rc, wall):
        self.out = out
        self.rc = rc
        self.wall = wall
        self.generated = self.distinct = self.depth = None
        m = re.search(r"(\d+) states generated, (\d+) distinct states found", out)
        if m:
            self.generated, self.distinct = int(m.group(1)), int(m.group(2))
        m = re.search(r"The depth of the complete state graph search is (\d+)", out)
        if m:
            self.depth = int(m.group(1))
        self.ok = ("Model checking completed. No error has been found." in out) or \
                  ("Finished in" in out and "Error:" not in out and rc == 0)
        self.invariant_violated = None
        m = re.search(r"Invariant (\S+) is violated", out)
        if m:
            self.invariant_violated = m.group(1)
        m = re.search(r"Action property (\S+) is violated", out)
        if m:
            self.invariant_violated = m.group(1)
        if "Temporal properties were violated" in out:
            self.invariant_violated = self.invariant_violated or "temporal"
        self.coverage = self._coverage(out)

    @staticmethod
    def _coverage(out):
        """per-action ``<Name line ..>: distinct:generated`` lines of -coverage"""
        cov = {}
        for m in re.finditer(r"^<(\w+) line \d+, col \d+ to line \d+, col \d+ of module (\w+)>: (\d+):(\d+)",
                             out, re.M):
            name = m.group(1)
            d, g = int(m.group(3)), int(m.group(4))
            a = cov.setdefault(name, [0, 0])
            a[0] += d
            a[1] += g
        return cov

    def printed(self):
        """values printed with PrintT(<string>) -- one JSON document per line"""
        res = []
        for line in self.out.splitlines():
            line = line.strip()
            if len(line) >= 2 and line[0] == '"' and line[-1] == '"':
                body = line[1:-1]
                try:
                    body = body.replace('\\"', '"').replace("\\\\", "\\")
                    res.append(json.loads(body))
                except ValueError:
                    pass
        return res


def run(module, cfg=None, workers=1, env=None, timeout=1800, simulate=None, depth=None,
        coverage=False, deadlock=True, extra=(), seed=None, cwd=SPEC, dfs=False, heap="8g"):
    """Run TLC on spec/<module>.tla with spec/<cfg>.cfg.  Returns Result.

    Raises TLCError if TLC could not complete its job (anything except a clean
    pass or a reported property violation)."""
    meta = scratch_dir("tlcmeta_")
    cmd = ["java", "-XX:+UseSerialGC" if workers == 1 else "-XX:+UseParallelGC", "-Xmx" + heap, "-Xss128m"]
    if workers != 1:
        cmd.append("-XX:ParallelGCThreads=%d" % max(2, min(8, int(workers) // 2)))
    if dfs:
        cmd.append("-Dtlc2.tool.queue.IStateQueue=StateDeque")
    cmd += ["-cp", JAR + ":" + CM, "tlc2.TLC", "-metadir", meta, "-noGenerateSpecTE",
            "-workers", str(workers)]
    if cfg:
        cmd += ["-config", cfg if cfg.endswith(".cfg") else cfg + ".cfg"]
    if simulate:
        cmd += ["-simulate", simulate]
    if depth:
        cmd += ["-depth", str(depth)]
    if coverage:
        cmd += ["-coverage", "1"]
    if not deadlock:
        cmd += ["-deadlock"]
    if seed is not None:
        cmd += ["-seed", str(seed)]
    cmd += list(extra)
    cmd.append(module if module.endswith(".tla") else module + ".tla")
    e = dict(os.environ)
    e.pop("JAVA_TOOL_OPTIONS", None)
    if env:
        e.update({k: str(v) for k, v in env.items()})
    t0 = time.time()
    try:
        p = subprocess.run(cmd, cwd=cwd, env=e, stdout=subprocess.PIPE, stderr=subprocess.STDOUT,
                           timeout=timeout, text=True, errors="replace")
    except subprocess.TimeoutExpired as ex:
        shutil.rmtree(meta, ignore_errors=True)
        raise TLCError("TLC timed out after %ss on %s" % (timeout, module)) from ex
    finally:
        shutil.rmtree(meta, ignore_errors=True)
    res = Result(p.stdout, p.returncode, time.time() - t0)
    if not res.ok and res.invariant_violated is None:
        errs = [ln for ln in p.stdout.splitlines() if ln.startswith("Error:") or "Exception" in ln][:8]
        tail = "\n".join(errs + ["..."] + p.stdout.splitlines()[-25:])
        raise TLCError("TLC failed on %s (rc=%s):\n%s" % (module, p.returncode, tail))
    return res


def sany(module, cwd=SPEC):
    cmd = ["java", "-cp", JAR + ":" + CM, "tla2sany.SANY", module]
    p = subprocess.run(cmd, cwd=cwd, stdout=subprocess.PIPE, stderr=subprocess.STDOUT, text=True)
    ok = p.returncode == 0 and "Semantic errors" not in p.stdout and "Fatal" not in p.stdout \
        and "*** Errors" not in p.stdout and "Parse Error" not in p.stdout
    return ok, p.stdout


def apalache(module, init, inv, length, cinit=None, timeout=600):
    """apalache-mc check; returns (outcome 'NoError' | 'Error' | None, wall seconds, tail of the output)"""
    out_dir = scratch_dir("apalache_")
    cmd = ["apalache-mc", "check", "--init=" + init, "--inv=" + inv, "--length=%d" % length, "--out-dir=" + out_dir]
    if cinit:
        cmd.append("--cinit=" + cinit)
    cmd.append(os.path.join(SPEC, module if module.endswith(".tla") else module + ".tla"))
    t0 = time.time()
    try:
        p = subprocess.run(cmd, cwd=out_dir, stdout=subprocess.PIPE, stderr=subprocess.STDOUT, timeout=timeout, text=True,
                           errors="replace")
        out = p.stdout
    except subprocess.TimeoutExpired:
        out = "timeout"
    finally:
        shutil.rmtree(out_dir, ignore_errors=True)
    m = re.search(r"The outcome is: (\w+)", out)
    return (m.group(1) if m else None), time.time() - t0, out[-800:]
