"""Reference numeric engine (declared trusted base, DESIGN 4.3).

Turns normal forms PRODUCED BY THE SPECIFICATION (never PyGOM functions) into numeric callables and
integrates them with scipy.integrate.solve_ivp(DOP853, rtol=1e-12, atol=1e-13) -- an integrator PyGOM
never uses.  Trusted: scipy's DOP853 / Radau, numpy, and the translator below.
"""
import math

import numpy as np
from scipy.integrate import solve_ivp


def _term_src(ex, c, nplain, names):
    parts = [repr(float(c))] if float(c) != 1.0 or not any(ex) else []
    for j, e in enumerate(ex):
        if e == 0:
            continue
        v = names[j]
        parts.append(v if e == 1 else "%s**%d" % (v, e) if e > 0 else "%s**(%d)" % (v, e))
    return "*".join(parts) if parts else "1.0"


def _poly_src(p, names):
    if not p:
        return "0.0"
    return " + ".join("(" + _term_src(ex, c, 0, names) + ")" for ex, c in sorted(p.items()))


def compile_polys(sy, polys):
    """f(v) -> list of floats, v = values of the plain symbols (states, t, params, derived)"""
    nplain = sy.n - len(sy.atoms)
    names = ["v[%d]" % j for j in range(nplain)] + ["a%d" % k for k in range(len(sy.atoms))]
    lines = ["def f(v):"]
    for k, a in enumerate(sy.atoms):
        arg = _poly_src(a["arg"], names)
        if a["kind"] == "H":
            lines.append("    a%d = 1.0/(1.0 + (%s))" % (k, arg))
        elif a["kind"] == "E":
            lines.append("    a%d = _exp(-(%s))" % (k, arg))
        elif a["kind"] == "C":
            lines.append("    a%d = _cos(%s)" % (k, arg))
        elif a["kind"] == "S":
            lines.append("    a%d = _sin(%s)" % (k, arg))
    lines.append("    return [" + ", ".join(_poly_src(p, names) for p in polys) + "]")
    ns = {"_exp": math.exp, "_cos": math.cos, "_sin": math.sin}
    exec("\n".join(lines), ns)
    return ns["f"]


def rhs_from_spec(sy, ode_polys, theta):
    """x' = f(t, x) for fixed parameter values, from the specification's ODE normal form"""
    f = compile_polys(sy, ode_polys)
    th = [float(v) for v in theta]
    pad = [0.0] * sy.nd

    def rhs(t, x):
        return f(list(x) + [t] + th + pad)
    return rhs


def solve(rhs, x0, times, method="DOP853", rtol=1e-12, atol=1e-13):
    """solution at times[1:] started from x0 at times[0]; returns array (len(times), n) incl. the origin row"""
    times = [float(t) for t in times]
    uniq = sorted(set(times))            # repeated requested times: solve once, report the same row again
    if len(uniq) == 1:
        return np.array([x0 for _ in times], float)
    sol = solve_ivp(rhs, (uniq[0], uniq[-1]), np.array(x0, float), method=method, t_eval=uniq,
                    rtol=rtol, atol=atol)
    if not sol.success or sol.y.shape[1] != len(uniq):
        raise RuntimeError("reference integration failed: " + str(sol.message))
    where = {t: k for k, t in enumerate(uniq)}
    return sol.y.T[[where[t] for t in times]]


def mat_from_spec(sy, mat_polys):
    """compile a matrix of polys (list of rows) -> f(v) -> 2-d numpy array"""
    rows = len(mat_polys)
    cols = len(mat_polys[0]) if rows else 0
    f = compile_polys(sy, [p for r in mat_polys for p in r])
    return lambda v: np.array(f(v), float).reshape(rows, cols)


def compile_ext(sy, polys, n2):
    """polys over the EXTENDED symbol table of spec/SensLayout.tla (definition symbols, then n2 - sy.n extra
    symbols) -> f(v, e): v values of the plain symbols, e values of the extra symbols (0-based: symbol sy.n+1+j)"""
    nplain = sy.n - len(sy.atoms)
    names = ["v[%d]" % j for j in range(nplain)] + ["a%d" % k for k in range(len(sy.atoms))] + \
            ["e[%d]" % j for j in range(n2 - sy.n)]
    lines = ["def f(v, e):"]
    for k, a in enumerate(sy.atoms):
        arg = _poly_src(a["arg"], names)
        if a["kind"] == "H":
            lines.append("    a%d = 1.0/(1.0 + (%s))" % (k, arg))
        elif a["kind"] == "E":
            lines.append("    a%d = _exp(-(%s))" % (k, arg))
        elif a["kind"] == "C":
            lines.append("    a%d = _cos(%s)" % (k, arg))
        elif a["kind"] == "S":
            lines.append("    a%d = _sin(%s)" % (k, arg))
    lines.append("    return [" + ", ".join(_poly_src(p, names) for p in polys) + "]")
    ns = {"_exp": math.exp, "_cos": math.cos, "_sin": math.sin}
    exec("\n".join(lines), ns)
    return ns["f"]


def rhs_aug_from_spec(sy, aug_polys, var_syms, n2, theta):
    """z' = F(t, z) for an augmented system of the specification: aug_polys[q] is the right-hand side of the
    q-th entry, var_syms[q] the (1-based) symbol that entry stands for (states first)."""
    f = compile_ext(sy, aug_polys, n2)
    th = [float(v) for v in theta]
    pad = [0.0] * sy.nd
    ext = [s - sy.n - 1 for s in var_syms[sy.ns:]]
    nex = n2 - sy.n

    def rhs(t, z):
        e = [0.0] * nex
        for q, j in enumerate(ext):
            e[j] = z[sy.ns + q]
        return f(list(z[:sy.ns]) + [t] + th + pad, e)
    return rhs
