"""Verdicts, evidence files, replay files and known findings.

exit 0  everything explored conformed (KNOWN-FINDING lines allowed)
exit 1  VIOLATION property=<id> replay=<path>
exit 2  machinery failure (TLC error, vacuity guard, harness exception) -- never a violation
"""
import json
import os
import sys
import time
import traceback

VERIF = os.path.dirname(os.path.dirname(os.path.abspath(__file__)))
# VERIF_OUT redirects evidence and replay files (used when a check is pointed at a scratch worktree holding a
# seeded change, PYGOM_REPO=<worktree>, so that /verif/evidence keeps describing /repo itself)
_OUT = os.environ.get("VERIF_OUT") or VERIF
EVIDENCE = os.path.join(_OUT, "evidence")
REPLAYS = os.path.join(_OUT, "replays")
KNOWN = os.path.join(VERIF, "known_findings.json")


class Machinery(Exception):
    pass


def known_findings(prop):
    if not os.path.exists(KNOWN):
        return []
    with open(KNOWN) as f:
        data = json.load(f)
    return [e for e in data.get("findings", []) if e["property"] == prop and e.get("status") == "open"]


class Report:
    def __init__(self, prop, tier, seed, level="model_checking"):
        self.prop, self.tier, self.seed, self.level = prop, tier, seed, level
        self.t0 = time.time()
        self.cov = {"states": 0, "transitions": 0, "traces_validated_against_impl": 0, "samples": [],
                    "evaluations": 0, "distinct_nontrivial": 0, "rule": "", "tlc_runs": []}
        self.assumptions = []
        self.violations = []      # dicts: what, replay (data)
        self.known_hits = {}      # key -> count
        self.notes = []
        self._distinct = set()

    # ---- coverage -------------------------------------------------------
    def add_tlc(self, name, res, exhaustive=None):
        self.cov["states"] += res.distinct or 0
        self.cov["transitions"] += res.generated or 0
        ent = {"spec": name, "distinct_states": res.distinct, "states_generated": res.generated,
               "depth": res.depth, "wall_s": round(res.wall, 2)}
        if res.coverage:
            ent["action_coverage"] = {k: v[1] for k, v in sorted(res.coverage.items())}
        if exhaustive is not None:
            ent["exhaustive"] = exhaustive
        self.cov["tlc_runs"].append(ent)

    def count(self, n=1):
        self.cov["evaluations"] += n

    def distinct(self, key):
        self._distinct.add(key)

    def traces(self, n=1):
        self.cov["traces_validated_against_impl"] += n

    def sample(self, s, limit=4):
        if len(self.cov["samples"]) < limit:
            self.cov["samples"].append(s)

    def rule(self, text):
        self.cov["rule"] = text

    def assume(self, text):
        if text not in self.assumptions:
            self.assumptions.append(text)

    # ---- verdicts -------------------------------------------------------
    def violation(self, what, replay, key=None):
        """A disagreement between implementation and specification.  `key` is the
        classifying key matched against known_findings.json."""
        for e in known_findings(self.prop):
            if key is not None and e["key"] == key:
                self.known_hits[key] = self.known_hits.get(key, 0) + 1
                return
        self.violations.append({"what": what, "replay": replay, "key": key})

    def finish(self, extra=None):
        self.cov["distinct_nontrivial"] = max(self.cov["distinct_nontrivial"], len(self._distinct))
        wall = time.time() - self.t0
        paths = []
        os.makedirs(os.path.join(REPLAYS, self.prop), exist_ok=True)
        # write one replay per distinct key first, then fill up to 20 files
        seen, first, later = set(), [], []
        for v in self.violations:
            (later if str(v["key"]) in seen else first).append(v)
            seen.add(str(v["key"]))
        self.violations = first + later
        for i, v in enumerate(self.violations[:max(20, min(len(first), 60))]):
            path = os.path.join(REPLAYS, self.prop, "violation_%s_%d_%d.json" % (self.tier, self.seed, i))
            with open(path, "w") as f:
                json.dump({"property": self.prop, "what": v["what"], "key": v["key"], "replay": v["replay"]},
                          f, indent=1, default=str)
            paths.append(path)
        cov = dict(self.cov)
        if extra:
            cov.update(extra)
        cov["known_findings_hit"] = self.known_hits
        keys = {}
        for v in self.violations:
            keys[str(v["key"])] = keys.get(str(v["key"]), 0) + 1
        if keys:
            cov["violation_keys"] = keys
        if self.notes:
            cov["notes"] = self.notes
        if not cov["samples"]:
            cov["samples"] = ["(no sample recorded)"]
        ev = {"property_id": self.prop, "tier": self.tier, "seed": int(self.seed), "level": self.level,
              "coverage": cov, "assumptions": self.assumptions, "wall_s": round(wall, 2),
              "violations": len(self.violations)}
        os.makedirs(EVIDENCE, exist_ok=True)
        with open(os.path.join(EVIDENCE, self.prop + ".json"), "w") as f:
            json.dump(ev, f, indent=1, default=str)
        for e in known_findings(self.prop):
            print("KNOWN-FINDING: property=%s %s (seen %d times in this run)" %
                  (self.prop, e["what_failed"], self.known_hits.get(e["key"], 0)))
        for v, pth in zip(self.violations, paths):
            print("VIOLATION property=%s replay=%s" % (self.prop, pth))
            print("  " + v["what"][:600])
        if len(self.violations) > len(paths):
            print("  ... and %d more violations" % (len(self.violations) - len(paths)))
        print("%s %s: %d violations, %.1fs, states=%s traces=%s evaluations=%s" %
              (self.prop, self.tier, len(self.violations), wall, cov["states"],
               cov["traces_validated_against_impl"], cov["evaluations"]))
        return 1 if self.violations else 0


def main_wrapper(fn):
    """run a check body; map unexpected exceptions to exit 2"""
    try:
        rc = fn()
    except Machinery as ex:
        print("MACHINERY FAILURE: %s" % ex)
        sys.exit(2)
    except Exception:
        traceback.print_exc()
        print("MACHINERY FAILURE: unexpected exception in the harness")
        sys.exit(2)
    sys.exit(rc)
