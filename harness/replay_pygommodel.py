"""Mode G for PygomModel (C08): TLC-generated behaviours -- add_* calls through every route, parameter
and derived-parameter additions, re-binding, evaluations in TLC-chosen order -- are performed on one
live SimulateOde; every evaluation must return (a) the value of the normal form the behaviour carries
and (b) what a freshly constructed model with the same final definition returns."""
import random

import numpy as np

from harness import build
from engine import codec, gen
from engine.codec import Symbols
from pygom import SimulateOde, Transition, Event
from pygom.model import ode_utils

STATES, PARAMS, DERIVED = ["S", "I"], ["b", "g", "k"], ["d1"]
X, T = [1.5, 2.75], 0.5


def value(tag):
    c, j = tag
    return (4 * c + j) / 8.0 + 0.125


def symbols(header):
    sym = header["sym"]
    atoms = [{"kind": a["kind"], "arg": codec.P(a["arg"]), "pair": a["pair"]} for a in sym["atoms"]]
    return Symbols(STATES, PARAMS, DERIVED, atoms)


def menu_proc(header, k):
    m = header["menu"][k - 1]
    if m["kind"] == "ode":
        return {"kind": "ode", "st": m["st"], "eqn": codec.P(m["eqn"])}
    return {"kind": "event", "rate": codec.P(m["rate"]),
            "trs": [{"ty": t["ty"], "o": t["o"], "d": t["d"], "mag": codec.P(t["mag"])} for t in m["trs"]]}


class Live:
    """the real object plus the bookkeeping needed to build a fresh twin"""

    def __init__(self, header, backend, rng):
        self.header, self.sy, self.rng, self.backend = header, symbols(header), rng, backend
        self.np = header["sym"]["np0"]
        self.nd = 0
        self.events = [menu_proc(header, k) for k in header["base"]]
        self.odes = []
        self.theta = {}
        self.m = self._construct(self.events, [], self.np, self.nd)

    def _render(self, p, style=0):
        return codec.render(self.sy, p, style, self.rng)

    def _construct(self, events, odes, np_, nd):
        ev = [build.api_object(self.sy, p, "E", self._render(p["rate"]))[2] for p in events]
        od = [Transition(origin=STATES[o["st"] - 1], equation=self._render(o["eqn"]), transition_type="ODE") for o in odes]
        kw = {}
        if ev:
            kw["event"] = ev
        if od:
            kw["ode"] = od
        if nd:
            kw["derived_param"] = [(DERIVED[i], self._render(codec.P(self.header["sym"]["derived"][i]))) for i in range(nd)]
        m = SimulateOde(state=list(STATES), param=PARAMS[:np_], **kw)
        if self.backend == "lambda":
            m._SC = ode_utils.compileCode(backend="lambda")
        return m

    def fresh(self):
        m = self._construct(self.events, self.odes, self.np, self.nd)
        m.parameters = [self.theta[k] for k in range(1, self.np + 1)]
        return m

    def apply(self, step, c):
        act = step["act"]
        if act == "Mutate":
            p = menu_proc(self.header, step["k"])
            if p["kind"] == "ode" or step["route"] == "ODE":
                terms = [(p["st"], p["eqn"])] if p["kind"] == "ode" else build.ode_terms_of_event(self.sy, p)
                for st, eqn in terms:
                    self.m.add_ode(Transition(origin=STATES[st - 1], equation=self._render(eqn, c), transition_type="ODE"))
                    self.odes.append({"st": st, "eqn": eqn})
            else:
                _, adder, obj = build.api_object(self.sy, p, step["route"], self._render(p["rate"], c), style=c, rng=self.rng)
                getattr(self.m, adder)(obj)
                self.events.append(p)
        elif act == "AddParam":
            self.np += 1
            self.m.param_list = [PARAMS[self.np - 1]]
        elif act == "AddDerived":
            self.nd += 1
            self.m.derived_param_list = [(DERIVED[self.nd - 1], self._render(codec.P(self.header["sym"]["derived"][self.nd - 1])))]
        elif act == "SetParams":
            names = step["names"]
            for j in names:
                self.theta[j] = value((c, j))
            if step["route"] == "list" and len(names) == self.np:
                self.m.parameters = [self.theta[j] for j in names]
            else:
                # dict keyed by name or (every other time) by symbol
                import sympy
                key = (lambda j: sympy.Symbol(PARAMS[j - 1])) if c % 2 == 0 else (lambda j: PARAMS[j - 1])
                self.m.parameters = {key(j): self.theta[j] for j in names}
        else:
            raise ValueError(act)

    def expected(self, step):
        pt = list(X) + [T] + [self.theta.get(k, float("nan")) for k in range(1, len(PARAMS) + 1)] + [float("nan")] * len(DERIVED)
        fp = codec.full_point(self.sy, pt)
        vals, scs = [], []
        for row in step["expect"]:
            for tms in row:
                v, sc = codec.peval(self.sy, codec.P(tms), fp, scale=True)
                vals.append(v)
                scs.append(sc)
        return np.array(vals, float), np.array(scs, float)


MUT_KIND = {"E": "add_event", "E1": "add_event", "T": "add_event", "LT": "add_transition", "LBo": "add_birth_death",
            "LBd": "add_birth_death", "LD": "add_birth_death", "ODE": "add_ode"}


def kind_of(step):
    if step["act"] == "Mutate":
        return MUT_KIND[step["route"]]
    if step["act"] == "SetParams":
        return "set_all" if len(step["names"]) > 1 else "set_one"
    return step["act"]


def replay(header, obs, backend="lambda", seed=0, compare_fresh=True):
    """returns (mismatch or None, coverage pairs)"""
    rng = random.Random(seed)
    live = Live(header, backend, rng)
    compiled = set()
    since = {e: [] for e in build.ARRAY_EVALUATORS}     # mutation kinds since e was last evaluated
    first_after = False
    pairs = set()
    bystander = None
    for c, step in enumerate(obs, start=1):
        if step["act"] != "Evaluate":
            try:
                live.apply(step, c)
            except Exception as ex:
                return {"step": c, "what": "mutation raised", "detail": repr(ex)[:300]}, pairs
            for e in since:
                since[e].append(kind_of(step))
            first_after = True
            # model objects are independent: what happens to ANOTHER object between a modification of this one and its
            # next evaluation is of no concern to it.  A bystander (built once, from the definition the live object had at
            # that moment) is evaluated here on half of the occasions.
            if bystander is not None and rng.random() < 0.5:
                nb = bystander[1]
                for e2 in build.ARRAY_EVALUATORS:
                    if nb[2] == 0 and e2 in ("vMat", "eventRateVector", "transitionJacobian", "transitionMean", "transitionVar"):
                        continue
                    try:
                        build.evaluate(bystander[0], e2, X, T, 2, nb[1], nb[2])
                    except Exception:
                        pass
            continue
        e = step["e"]
        ne = len(live.events)
        if ne == 0 and e in ("vMat", "eventRateVector", "transitionJacobian", "transitionMean", "transitionVar"):
            continue
        for mk in since[e]:
            pairs.add((mk, e, e in compiled, first_after))
        last_mut = "+".join(sorted(set(since[e]))) if e in compiled else "(first evaluation)"
        since[e] = []
        first_after = False
        exp, sc = live.expected(step)
        try:
            got = build.evaluate(live.m, e, X, T, 2, live.np, ne, tform=(c % 2 == 1)).reshape(-1)
        except Exception as ex:
            return {"step": c, "what": "evaluation raised", "e": e, "detail": repr(ex)[:300]}, pairs
        compiled.add(e)
        if bystander is None:
            try:
                bystander = (live.fresh(), (2, live.np, ne))
            except Exception:
                bystander = None
        # (floor relative to the largest entry scale: an entry whose terms cancel comes back as a rounding residue)
        floor = 1e-9 * (float(np.max(sc)) if np.size(sc) else 0.0)
        if got.shape != exp.shape or not np.all(np.abs(got - exp) <= 1e-9 * (sc + np.abs(got)) + floor + 1e-300):
            return {"step": c, "what": "evaluator is not the function of the current definition", "e": e,
                    "got": got.tolist(), "expected": exp.tolist(), "after": last_mut}, pairs
        if compare_fresh:
            try:
                fr = build.evaluate(live.fresh(), e, X, T, 2, live.np, ne).reshape(-1)
            except Exception as ex:
                return {"step": c, "what": "fresh model raised", "e": e, "detail": repr(ex)[:300]}, pairs
            if not np.allclose(got, fr, rtol=1e-9, atol=0):
                return {"step": c, "what": "evaluator differs from a freshly constructed model", "e": e,
                        "got": got.tolist(), "fresh": fr.tolist(), "after": last_mut}, pairs
    return None, pairs


def worker(args):
    header, behaviours, backend, seed, compare_fresh = args
    bad, pairs = [], set()
    for i, obs in enumerate(behaviours):
        mm, pr = replay(header, obs, backend, seed + i, compare_fresh)
        pairs |= pr
        if mm:
            bad.append({"obs": [{k: v for k, v in s.items() if k != "expect"} for s in obs], "mismatch": mm})
    return bad, pairs, len(behaviours)
