"""Turn an abstract definition (engine/gen.py) into real PyGOM objects.

Routes (how one process is handed to the API):
  E    Event(rate=..., transition_list=[Transition without equation ...])
  E1   Event(transition_list=[... exactly one Transition carries the equation ...])  (no rate=)
  T    a bare Transition carrying its own equation, passed where an event is expected
  LT   legacy between-state transition (transition= / add_transition)          (single T only)
  LBo  legacy birth named by origin, LBd by destination (birth_death= / add_birth_death)
  LD   legacy death
  ODE  the same process written as explicit ODE terms
Each process additionally goes either through the constructor lists or through
an incremental add_* call ("how": "ctor" | "add").
"""
import os
import sys
import warnings

warnings.filterwarnings("ignore")

_REPO_SRC = os.environ.get("PYGOM_SRC", "/repo/src")
if _REPO_SRC not in sys.path:
    sys.path.insert(0, _REPO_SRC)

import numpy as np                      # noqa: E402
from pygom import SimulateOde, Transition, Event, TransitionType   # noqa: E402
from pygom.model import ode_utils       # noqa: E402

from engine import codec                # noqa: E402
from engine.codec import pmul, pscale   # noqa: E402


def _tr(sy, t, equation=None, style=0, with_mag=True, birth_by="d"):
    names = sy.states
    kw = {}
    if with_mag:
        kw["magnitude"] = codec.render(sy, t["mag"], style)
    if equation is not None:
        kw["equation"] = equation
    if t["ty"] == "T":
        return Transition(origin=names[t["o"] - 1], destination=names[t["d"] - 1], transition_type="T", **kw)
    if t["ty"] == "B":
        if birth_by == "o":
            return Transition(origin=names[t["d"] - 1], transition_type="B", **kw)
        return Transition(destination=names[t["d"] - 1], transition_type="B", **kw)
    return Transition(origin=names[t["o"] - 1], transition_type="D", **kw)


def valid_routes(p):
    if p["kind"] == "ode":
        return ["ODE"]
    trs = p["trs"]
    r = ["E", "E1", "ODE"]
    if len(trs) == 1:
        r.append("T")
        ty = trs[0]["ty"]
        if ty == "T":
            r.append("LT")
        elif ty == "B":
            r += ["LBo", "LBd"]
        else:
            r.append("LD")
    return r


def pick_add_route(rng, p, allow_ode=True):
    """a route for ADDING p to an existing model, every add_* method (add_event with an Event, add_event with a bare
    Transition, add_transition, add_birth_death, add_ode) equally likely among those that can take p"""
    groups = {}
    for r in valid_routes(p):
        g = {"E": "event", "E1": "event", "T": "bare", "LT": "transition", "ODE": "ode"}.get(r, "birth_death")
        if g == "ode" and not allow_ode:
            continue
        groups.setdefault(g, []).append(r)
    return rng.choice(groups[rng.choice(sorted(groups))])


def api_object(sy, p, route, rate_str, style=0, rng=None):
    """the API object for handing event-process p to PyGOM through `route`:
    returns (constructor slot, add_* method name, object)"""
    trs = p["trs"]
    if route == "E":
        return "event", "add_event", Event(rate=rate_str, transition_list=[_tr(sy, t, style=style) for t in trs])
    if route == "E1":
        k = (rng.randrange(len(trs)) if rng else 0)
        lst = [_tr(sy, t, equation=(rate_str if j == k else None), style=style) for j, t in enumerate(trs)]
        obj = Event(transition_list=lst if len(lst) > 1 or (rng and rng.random() < 0.5) else lst[0])
        return "event", "add_event", obj
    if route == "T":
        return "event", "add_event", _tr(sy, trs[0], equation=rate_str, style=style)
    if route == "LT":
        return "transition", "add_transition", _tr(sy, trs[0], equation=rate_str, style=style)
    if route in ("LBo", "LBd", "LD"):
        return "birth_death", "add_birth_death", _tr(sy, trs[0], equation=rate_str, style=style,
                                                      birth_by=("o" if route == "LBo" else "d"))
    raise ValueError(route)


def ode_terms_of_event(sy, p):
    """the explicit-ODE rendering of an event: list of (state(1-based), poly)"""
    out = []
    for t in p["trs"]:
        term = pmul(t["mag"], p["rate"])
        if t["ty"] in ("T", "D"):
            out.append((t["o"], pscale(-1, term)))
        if t["ty"] in ("T", "B"):
            out.append((t["d"], term))
    return out


def state_decl(defn, form, rng=None):
    sy = defn.sy
    rg = defn.decl.get("range")
    if rg is True:
        return ["y1:%d" % (sy.ns + 1)]
    if rg:
        # the first rg states as one range-style entry, the others by name (with their limits)
        ident = "y1:%d" % (rg + 1)
        if defn.decl.get("range_odevar"):
            from pygom.model.ode_variable import ODEVariable
            ident = ODEVariable(ident, "stage")
        lim = defn.decl.get("range_lim")
        first = [(ident, tuple(lim))] if lim is not None else [ident]
        return first + [(s, tuple(l)) for s, l in zip(sy.states[rg:], defn.lims[rg:])]
    if form == "space":
        return " ".join(sy.states)
    if form == "comma":
        return ",".join(sy.states)
    if form == "commaspace":
        return ", ".join(sy.states)
    if form == "tuples":
        return [(s, tuple(l)) for s, l in zip(sy.states, defn.lims)]
    return list(sy.states)


def param_decl(defn, form):
    sy = defn.sy
    if form == "space":
        return " ".join(sy.params)
    if form == "comma":
        return ",".join(sy.params)
    if form == "commaspace":
        return ", ".join(sy.params)
    if form == "tuple":
        return tuple(sy.params)
    return list(sy.params)


def build(defn, rng=None, style=None, sform="list", pform="list", backend="lambda", routes=None,
          hows=None, on_step=None):
    """Construct the model.  Returns (model, events_in_model_order, odes_in_model_order):
    the abstract events / ode terms in the order in which the real model holds them, which is
    the order the specification's definition record must have."""
    sy = defn.sy
    rs = lambda p, k=0: codec.render(sy, p, (style if style is not None else 0) + k, rng)
    ctor = {"event": [], "transition": [], "birth_death": [], "ode": []}
    later = []          # (callable name, object) in call order
    ev_ctor = {"event": [], "transition": [], "birth_death": []}
    ev_later = []
    ode_ctor, ode_later = [], []
    for i, p in enumerate(defn.procs):
        route = (routes[i] if routes else p.get("route", "E" if p["kind"] == "event" else "ODE"))
        how = (hows[i] if hows else p.get("how", "ctor"))
        if p["kind"] == "ode" or route == "ODE":
            if p["kind"] == "ode":
                terms = [(p["st"], p["eqn"])]
            else:
                terms = ode_terms_of_event(sy, p)
            for st, eqn in terms:
                obj = Transition(origin=sy.states[st - 1], equation=rs(eqn, i), transition_type="ODE")
                rec = {"kind": "ode", "st": st, "eqn": eqn}
                if how == "ctor":
                    ctor["ode"].append(obj)
                    ode_ctor.append(rec)
                else:
                    later.append(("add_ode", obj))
                    ode_later.append(rec)
            continue
        slot, adder, obj = api_object(sy, p, route, rs(p["rate"], i), style=i, rng=rng)
        if how == "ctor":
            ctor[slot].append(obj)
            ev_ctor[slot].append(p)
        else:
            later.append((adder, obj))
            ev_later.append(p)
    derived = [(nm, rs(p)) for nm, p in zip(sy.derived, defn.derived)]
    kw = {}
    for key in ("event", "transition", "birth_death", "ode"):
        if ctor[key]:
            kw[key] = ctor[key]
            # a single birth / death process or explicit equation may be handed over without its enclosing list (transition=
            # and event= insist on a list)
            if key in ("birth_death", "ode") and len(ctor[key]) == 1 and rng is not None and rng.random() < 0.35:
                kw[key] = ctor[key][0]
    if derived:
        kw["derived_param"] = derived
    m = SimulateOde(state=state_decl(defn, sform), param=param_decl(defn, pform), **kw)
    if backend == "lambda":
        m._SC = ode_utils.compileCode(backend="lambda")
    if on_step is not None and later:
        on_step(m, len(ctor["event"]) + len(ctor["transition"]) + len(ctor["birth_death"]))
    for name, obj in later:
        getattr(m, name)(obj)
        if on_step is not None and obj is not later[-1][1]:
            on_step(m, len(m.event_list))
    events = ev_ctor["event"] + ev_ctor["transition"] + ev_ctor["birth_death"] + ev_later
    odes = ode_ctor + ode_later
    return m, events, odes


ARRAY_EVALUATORS = ["ode", "jacobian", "grad", "diff_jacobian", "grad_jacobian", "vMat", "eventRateVector",
                    "pureOdeVector", "transitionJacobian", "transitionMean", "transitionVar"]


def shape_of(name, ns, np_, ne):
    return {"ode": (ns,), "jacobian": (ns, ns), "grad": (ns, np_), "diff_jacobian": (ns * ns, ns),
            "grad_jacobian": (np_ * ns, ns), "vMat": (ns, ne), "eventRateVector": (ne,),
            "pureOdeVector": (ns,), "transitionJacobian": (ne, ne), "transitionMean": (ne,),
            "transitionVar": (ne,)}[name]


T_FORMS = ("ode", "jacobian", "grad", "diff_jacobian")


def evaluate(m, name, x, t, ns, np_, ne, tform=None):
    """call evaluator `name` and reshape the result to its documented shape
    (a 1 x n or n x 1 result may come back flattened: DESIGN section 8)"""
    # ode, jacobian, grad and diff_jacobian also exist in a (t, state) form (what scipy.integrate.ode is handed): used for
    # every other point (decided by the point itself, so that a replay is reproducible)
    if tform is None:
        tform = int(round(float(np.sum(x)) * 8 + float(t) * 8)) % 2 == 1
    if name in T_FORMS and tform:
        val = getattr(m, name + "_T")(t, x)
    else:
        val = getattr(m, name)(x, t)
    arr = np.asarray(val, dtype=float)
    shp = shape_of(name, ns, np_, ne)
    if arr.size != int(np.prod(shp)):
        raise ValueError("evaluator %s returned %d values, %s expected" % (name, arr.size, shp))
    return arr.reshape(shp)
