"""Mode A for layer L8 (C17): ABC sessions on real loss objects, recorded through a wrapper on
ABC._perform_generation (every accepted particle of every generation with the tolerance it was accepted under)
and the final res / dist / w / tolerances; costs and tolerances are turned into dense ranks and the session is
validated by TLC against TR_Abc."""
import math
import random

import numpy as np

from harness import build  # noqa: F401  (puts the working tree on sys.path)
from pygom import approximate_bayesian_computation as pgabc
from pygom.model import common_models


def prior_positive(spec, x):
    """the SPECIFICATION's prior table (support of the prior on the sampled scale)"""
    kind = spec["dist"]
    if kind == "unif":
        return spec["args"][0] <= x <= spec["args"][1]
    if kind == "gamma":
        return x > 0
    if kind == "norm":
        return True
    raise ValueError(kind)


def make_session(rng, force_constraint=False):
    """model, data, prior table, call sequence; force_constraint: a stratum that always has an inferred initial value and
    a population constraint on the FIRST state"""
    which = rng.choice(["sir", "sir", "lv", "sircount"])
    if force_constraint:
        which = "sir"
    if which == "sircount":
        # count-scale SIR with a likelihood-type distance and wide priors: for much of the prior the epidemic dies out and
        # the loss is undefined (NaN); such trials have no distance below any tolerance
        true = {"beta": 0.5, "gamma": 1.0 / 3.0, "N": 1000.0}
        ode = common_models.SIR(dict(true))
        x0 = [990.0, 10.0, 0.0]
        t = np.linspace(0, 60, 16)
        obs = rng.choice([["I"], ["I", "R"]])
        states = ["S", "I", "R"]
        state_target = None
    elif which == "sir":
        true = {"beta": 0.5, "gamma": 1.0 / 3.0}
        ode = common_models.SIR_norm(dict(true))
        # now and then some of the population starts as removed (a constraint then has to subtract it too)
        x0 = [0.98, 0.02, 0.0] if rng.random() < 0.6 else [0.88, 0.02, 0.10]
        t = np.linspace(0, 30, 13)
        obs = rng.choice([["I"], ["I", "R"], ["R", "I"], ["S", "I", "R"]])
        states = ["S", "I", "R"]
        state_target = ("I", 0.02) if (rng.random() < 0.3 or force_constraint) else None
    else:
        true = {"alpha": 1.0, "beta": 0.5, "gamma": 1.5, "delta": 0.4}
        ode = common_models.Lotka_Volterra(dict(true))
        x0 = [2.0, 6.0]
        t = np.linspace(0, 3, 13)
        obs = rng.choice([["x"], ["y", "x"], ["x", "y"]])
        states = ["x", "y"]
        state_target = None
    ode.initial_values = (x0, t[0])
    sol = ode.integrate(t[1:])
    names_all = [n for n in true if not (which == "sircount" and n == "N")]
    k = rng.randint(1, min(2, len(names_all)))
    if which == "sircount":
        k = 2
    chosen = rng.sample(names_all, k)
    if rng.random() < 0.5:
        chosen = sorted(chosen, key=lambda n: -names_all.index(n))       # parameter order differing from model order
    table = []
    for nm in chosen:
        tv = true[nm]
        kind = rng.choice(["unif", "unif", "gamma", "norm"])
        logscale = False
        if which == "sircount":
            kind = "unif"
        if kind == "unif":
            lo, hi = (0.05, 3.0) if which == "sircount" else (0.5 * tv, 1.6 * tv)
            if rng.random() < 0.35:
                logscale = True
                args = (math.log10(lo), math.log10(hi))
            else:
                args = (lo, hi)
        elif kind == "gamma":
            args = (16.0, 16.0 / tv)               # shape, rate: mean tv
        else:
            args = (tv, 0.15 * tv)
        table.append({"name": nm, "dist": kind, "args": args, "logscale": logscale, "is_state": False})
    if state_target is not None:
        nm, tv = state_target
        table.append({"name": nm, "dist": "unif", "args": (0.5 * tv, 1.5 * tv), "logscale": False, "is_state": True})
    if rng.random() < 0.5:
        rng.shuffle(table)
    if state_target is not None and rng.random() < 0.6:
        # an initial value listed BEFORE the model parameters, and log-scale flags that differ between the entries
        table.sort(key=lambda p: not p["is_state"])
        unif = [p for p in table if not p["is_state"] and p["dist"] == "unif" and not p["logscale"]]
        if unif and not any(p["logscale"] for p in table):
            p = unif[0]
            p["args"] = (math.log10(p["args"][0]), math.log10(p["args"][1]))
            p["logscale"] = True
    idx = [states.index(s) for s in obs]
    y = sol[1:, idx] if len(idx) > 1 else sol[1:, idx[0]]
    loss_type = rng.choice(["SquareLoss", "SquareLoss", "NormalLoss"])
    if which == "sircount":
        y = np.maximum(np.round(y), 0.0)
        loss_type = "PoissonLoss"
    mode = rng.choice(["rejection", "list", "quantile", "quantile"])
    N = rng.randint(10, 40)
    G = 1 if mode == "rejection" else rng.randint(2, 4)
    cfg = {"which": which, "true": true, "x0": x0, "t": t, "obs": obs, "table": table, "loss_type": loss_type,
           "mode": mode, "N": N, "G": G, "q": rng.choice([0.3, 0.5, 0.7]) if mode == "quantile" else None,
           "M": (rng.randint(max(3, N // 3), N - 1) if rng.random() < 0.35 and mode != "rejection" else None),
           "cont": (mode == "quantile" and rng.random() < 0.5),
           # the continued run starts from the tolerance the first run proposes, or from a tighter one the user picks
           "cont_tighter": rng.random() < 0.5,
           # the same ABC object is used again for a fresh, smaller run
           "restart": rng.random() < 0.35,
           "sigma": (rng.choice([0.05, 0.2]) if loss_type == "NormalLoss" else None),
           "states": states,
           # population constraint: the named state's initial value is set to (total - the others) after every update of the
           # inferred initial conditions
           "constraint": ((float(sum(x0)), "S" if force_constraint else rng.choice(["S", "R"]))
                          if (state_target is not None and (rng.random() < 0.6 or force_constraint)) else None)}
    return cfg, ode, y


def build_objects(cfg, ode, y):
    params = [pgabc.Parameter(p["name"], p["dist"], *p["args"], logscale=p["logscale"]) for p in cfg["table"]]
    kw = {}
    if cfg["loss_type"] == "NormalLoss":
        kw["sigma"] = cfg["sigma"]
    obj = pgabc.create_loss(cfg["loss_type"], params, ode, cfg["x0"], cfg["t"][0], cfg["t"][1:], y, cfg["obs"], **kw)
    return params, obj


def model_values(cfg, particle, loss_obj):
    """column i of a particle belongs to the i-th Parameter of the list handed to ABC; back-transform (log scale ->
    natural) and order BY NAME the way the loss object at hand names its free variables (target parameters, then
    target states)"""
    vals = {}
    for p, v in zip(cfg["table"], particle):
        vals[p["name"]] = 10.0 ** float(v) if p["logscale"] else float(v)
    pnames = [str(n) for n in (loss_obj._targetParam or [])]
    snames = [str(n) for n in (loss_obj._targetState or [])]
    return [vals[n] for n in pnames] + [vals[s] for s in snames], bool(snames)


CAT_NAME = {"sir": "SIR_norm", "lv": "Lotka_Volterra", "sircount": "SIR"}
_SPEC_ODE = {}


def reference_cost_fn(cfg, y):
    """cost at a particle from the REFERENCE engine: trajectory of the specification's transcription of the model
    (engine/catalogue.py through TLC) and the class's reference kernel -- independent of every PyGOM loss object"""
    import shutil
    from engine import catalogue, codec, refnum, tlc
    from harness import oracle_model as om, replay_loss as rl
    name = CAT_NAME[cfg["which"]]
    entry = next(e for e in catalogue.models() if e["name"] == name)
    sy = entry["defn"].sy
    if name not in _SPEC_ODE:
        d = tlc.scratch_dir("abcref_")
        try:
            odes = [{"kind": "ode", "st": p["st"], "eqn": p["eqn"]} for p in entry["defn"].procs]
            outs, _ = om.run_tlc_oracle([entry["defn"].to_json(0, want=[], events=[], odes=odes)], d, "abc")
            _SPEC_ODE[name] = [codec.P(t) for t in outs[0]["ode"]]
        finally:
            shutil.rmtree(d, ignore_errors=True)
    polys = _SPEC_ODE[name]
    oi = [sy.states.index(s) for s in cfg["obs"]]
    cls = cfg["loss_type"].replace("Loss", "")
    yy = np.asarray(y, float).reshape(len(cfg["t"]) - 1, -1)

    def cost(named):
        th = [float(named.get(nm, cfg["true"][nm])) for nm in sy.params]
        x0 = [float(named.get(s, v)) for s, v in zip(sy.states, cfg["x0"])]
        Y = refnum.solve(refnum.rhs_from_spec(sy, polys, th), x0, [float(v) for v in cfg["t"]])[1:][:, oi]
        S = np.full(Y.shape, cfg["sigma"] if cfg["sigma"] is not None else 1.0)
        with np.errstate(all="ignore"):
            c = float(np.sum(rl.ref_cost(cls, yy, Y, 1.0, S)))
            # conditioning: how much the cost moves when the trajectory moves by the integration error the code allows
            # (1e-7 (1 + max|Y|)); a Poisson cost near a died-out trajectory is ill-conditioned and judged accordingly
            dl = {"Square": 2.0 * np.abs(yy - Y), "Normal": np.abs(yy - Y) / S ** 2,
                  "Poisson": np.abs(1.0 - yy / Y)}[cls]
            slack = float(np.sum(dl)) * 1e-7 * (1.0 + float(np.max(np.abs(Y))))
        return c, (slack if np.isfinite(slack) else np.inf)
    return cost


def perform_session(seed):
    rng = random.Random(seed)
    np.random.seed(rng.randrange(1, 2 ** 31 - 1))
    cfg, ode, y = make_session(rng, force_constraint=(seed % 8 == 3))
    params, obj = build_objects(cfg, ode, y)
    # a fresh loss object on a fresh model for recomputation
    if cfg["which"] == "sircount":
        ode2 = common_models.SIR(dict(cfg["true"]))
    elif cfg["which"] == "sir":
        ode2 = common_models.SIR_norm(dict(cfg["true"]))
    else:
        ode2 = common_models.Lotka_Volterra(dict(cfg["true"]))
    ode2.initial_values = (cfg["x0"], cfg["t"][0])
    _, fresh = build_objects(cfg, ode2, y)
    x0_orig = np.array(cfg["x0"], float)

    def recompute(particle):
        vals, has_state = model_values(cfg, particle, fresh)
        fresh._setX0(x0_orig)
        if has_state and cfg.get("constraint"):
            total, cname = cfg["constraint"]
            fresh._setParamStateInput(vals)
            ci = cfg["states"].index(cname)
            fresh._x0[ci] = total - sum(float(v) for k, v in enumerate(fresh._x0) if k != ci)
            return float(fresh.cost())
        if has_state:
            return float(fresh.costIV(vals))
        return float(fresh.cost(vals))

    refcost = reference_cost_fn(cfg, y)

    def reference(particle):
        named = {}
        for p, v in zip(cfg["table"], particle):
            named[p["name"]] = 10.0 ** float(v) if p["logscale"] else float(v)
        if cfg.get("constraint") and any(p["is_state"] for p in cfg["table"]):
            total, cname = cfg["constraint"]
            others = sum(float(named.get(s_, v0)) for s_, v0 in zip(cfg["states"], cfg["x0"]) if s_ != cname)
            named[cname] = total - others
        return refcost(named)

    abc = pgabc.ABC(obj, params, constraint=tuple(cfg["constraint"])) if cfg.get("constraint") else pgabc.ABC(obj, params)
    rec = []                       # raw events
    orig = pgabc.ABC._perform_generation

    def wrapped(self, generation, sigma_list, tolerance, par_update, res_old, w_old):
        out = orig(self, generation=generation, sigma_list=sigma_list, tolerance=tolerance, par_update=par_update,
                   res_old=res_old, w_old=w_old)
        w, rej, trial, cost = out
        rec.append({"ev": "Accept", "gen": int(generation), "tolv": float(tolerance), "costv": float(cost),
                    "particle": [float(v) for v in np.atleast_1d(trial)], "wv": float(w), "rej": int(rej)})
        return out
    pgabc.ABC._perform_generation = wrapped
    calls = []
    err = None
    try:
        # pilot: costs at a few prior draws give finite tolerances that are attainable
        pilot = []
        for _ in range(30):
            part = [float(np.atleast_1d(p.random_sample())[0]) for p in params]
            try:
                c = recompute(part)
                if np.isfinite(c):
                    pilot.append(c)
            except Exception:
                pass
        pilot.sort()
        med = pilot[len(pilot) // 2] if pilot else np.inf
        if cfg["mode"] == "rejection":
            tol = med
        elif cfg["mode"] == "list":
            tol = [np.inf] + [pilot[max(0, len(pilot) // 2 - 3 * k)] for k in range(cfg["G"] - 1)]
        else:
            tol = np.inf
        calls.append(("get", tol))
        rec.append({"ev": "Start", "tolv": tol[0] if hasattr(tol, "__len__") else tol, "n": cfg["N"]})
        abc.get_posterior_sample(N=cfg["N"], tol=tol, G=cfg["G"], q=cfg["q"], M=cfg["M"])
        rec.append({"ev": "Final", "res": abc.res.copy(), "dist": abc.dist.copy(), "w": abc.w.copy(),
                    "tolerances": abc.tolerances.copy(), "finaltol": float(abc.final_tol)})
        if cfg["cont"]:
            ctol = float(abc.next_tol)
            if cfg.get("cont_tighter"):
                # a tolerance of the user's own choosing, tighter than the proposed one but with plenty of the current
                # particles below it (a nearly empty kernel would make the sampler loop for ever)
                alt = float(np.quantile(abc.dist, 0.8 * cfg["q"]))
                if np.isfinite(alt) and alt < ctol and int(np.sum(abc.dist < alt)) >= 4:
                    ctol = alt
            calls.append(("continue", ctol))
            rec.append({"ev": "Continue", "tolv": ctol})
            abc.continue_posterior_sample(N=cfg["N"], tol=ctol, G=2, q=cfg["q"], M=cfg["M"])
            rec.append({"ev": "Final", "res": abc.res.copy(), "dist": abc.dist.copy(), "w": abc.w.copy(),
                        "tolerances": abc.tolerances.copy(), "finaltol": float(abc.final_tol)})
        if cfg.get("restart") and np.isfinite(med):
            n2 = max(2, cfg["N"] // 2)
            calls.append(("get-again", float(med), n2))
            rec.append({"ev": "Restart", "tolv": float(med), "n": n2})
            abc.get_posterior_sample(N=n2, tol=float(med), G=1)
            rec.append({"ev": "Final", "res": abc.res.copy(), "dist": abc.dist.copy(), "w": abc.w.copy(),
                        "tolerances": abc.tolerances.copy(), "finaltol": float(abc.final_tol)})
    except np.linalg.LinAlgError as ex:
        err = {"kind": "linalg", "detail": repr(ex)[:200]}       # documented limitation for small N: not judged
    except Exception as ex:
        import traceback
        err = {"kind": "raised", "detail": traceback.format_exc()[-500:]}
    finally:
        pgabc.ABC._perform_generation = orig
    return {"cfg": {k: (v if not isinstance(v, np.ndarray) else v.tolist()) for k, v in cfg.items()}, "rec": rec,
            "error": err, "recompute": recompute, "reference": reference, "calls": calls}


def to_trace(sess):
    """events with dense ranks; recomputation and prior support judged here against the specification's tables"""
    cfg, rec = sess["cfg"], sess["rec"]
    recompute = sess["recompute"]
    vals = set()
    for e in rec:
        if "tolv" in e:
            vals.add(float(e["tolv"]))
        if "costv" in e:
            vals.add(float(e["costv"]))
        if e["ev"] == "Final":
            vals.update(float(v) for v in e["dist"])
            vals.update(float(v) for v in e["tolerances"])
            vals.add(float(e["finaltol"]))
    # the tolerance list the user supplied (list mode; empty otherwise)
    user_list = []
    if sess.get("calls") and sess["calls"][0][0] == "get" and hasattr(sess["calls"][0][1], "__len__"):
        user_list = [float(v) for v in sess["calls"][0][1]]
        vals.update(user_list)
    order = sorted(v for v in vals if not math.isnan(v))
    rank = {v: k for k, v in enumerate(order)}
    rk = lambda v: rank[float(v)] if not math.isnan(float(v)) else len(order) + 1

    def judge(particle, stored, w):
        prior = all(prior_positive(p, x) for p, x in zip(cfg["table"], particle))
        try:
            slack0 = sess["reference"](particle)[1]
        except Exception:
            slack0 = 0.0
        try:
            rc = recompute(particle)
            ok = abs(rc - stored) <= 1e-9 * (abs(stored) + abs(rc)) + 1e-14 + slack0
        except Exception:
            rc, ok = None, False
        # ... and the reference engine must give the same cost (a stored distance that no independent evaluation
        # reproduces -- e.g. an undefined loss silently turned into a number -- is not "the cost at that particle")
        try:
            rf, slack = sess["reference"](particle)
            ok = ok and np.isfinite(rf) and abs(rf - stored) <= 1e-5 * (abs(stored) + abs(rf)) + 1e-8 + slack
        except Exception:
            rf = None
            ok = False
        return prior, ("ok" if (np.isfinite(w) and w > 0) else "bad"), ("ok" if ok else "bad"), [rc, rf]

    events, detail = [], []
    G_of_call = [cfg["G"], 2]
    call = -1
    gens_in_call = 0
    cur_gen = None
    for k, e in enumerate(rec):
        if e["ev"] in ("Start", "Continue", "Restart"):
            call += 1
            cur_gen = None
            events.append({"ev": e["ev"], "tol": rk(e["tolv"]), "n": int(e.get("n", 0))})
            detail.append({"tol": e["tolv"], "n": e.get("n")})
        elif e["ev"] == "Accept":
            if cur_gen is not None and e["gen"] != cur_gen:
                events.append({"ev": "EndGen", "next": rk(e["tolv"])})
                detail.append({"next_tol": e["tolv"]})
            cur_gen = e["gen"]
            prior, wok, rok, rc = judge(e["particle"], e["costv"], e["wv"])
            events.append({"ev": "Accept", "cost": rk(e["costv"]), "prior": bool(prior), "w": wok, "recomputed": rok})
            detail.append({"particle": e["particle"], "stored": e["costv"], "recomputed": rc, "w": e["wv"], "tol": e["tolv"], "gen": e["gen"]})
        elif e["ev"] == "Final":
            events.append({"ev": "EndGen", "next": -1})
            detail.append({})
            parts = []
            dparts = []
            for i in range(len(e["dist"])):
                prior, wok, rok, rc = judge([float(v) for v in np.atleast_1d(e["res"][i])], float(e["dist"][i]), float(e["w"][i]))
                parts.append({"cost": rk(e["dist"][i]), "prior": bool(prior), "w": wok, "recomputed": rok})
                dparts.append({"particle": [float(v) for v in np.atleast_1d(e["res"][i])], "stored": float(e["dist"][i]),
                               "recomputed": rc, "w": float(e["w"][i])})
            events.append({"ev": "Final", "parts": parts, "finaltol": rk(e["finaltol"])})
            detail.append({"parts": dparts, "finaltol": e["finaltol"], "tolerances": [float(v) for v in e["tolerances"]]})
            cur_gen = None
    return {"N": cfg["N"], "maxgen": max(cfg["G"], 2), "maxrank": len(order) + 2, "mode": cfg["mode"], "events": events,
            "tollist": [rk(v) for v in user_list]}, detail
