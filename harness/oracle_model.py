"""Mode O for layers L1/L4: random definitions -> specification (TLC) -> comparison with PyGOM.

For every definition the *specification* derives the normal forms (ODE, V, R,
Jacobian, ...); PyGOM's symbolic objects are compared with them as identities
(evaluation of both sides at random rational points with 30 digits: a
polynomial-identity test whose only error is to miss a difference), and the
compiled evaluators are compared numerically at points with pairwise distinct
values (so that any index or argument-order slip changes the result).
"""
import json
import os
import random
import shutil
import sys
import traceback
from fractions import Fraction

import mpmath
import numpy as np
import sympy

from engine import codec, gen, tlc
from harness import build

SYM_GETTERS = {
    "ode": "get_ode_eqn", "V": "get_StateChangeMatrix", "R": "get_EventRateVector",
    "pure": "get_pureOdeVector", "jac": "get_jacobian_eqn", "grad": "get_grad_eqn",
    "djac": "get_diff_jacobian_eqn", "gjac": "get_grad_jacobian_eqn",
    "tj": "get_TransitionJacobian", "tmean": "get_TransitionMean", "tvar": "get_TransitionVar",
}
NUM_EVALS = {
    "ode": "ode", "V": "vMat", "R": "eventRateVector", "pure": "pureOdeVector", "jac": "jacobian",
    "grad": "grad", "djac": "diff_jacobian", "gjac": "grad_jacobian", "tj": "transitionJacobian",
    "tmean": "transitionMean", "tvar": "transitionVar",
}
C01_KEYS = ["ode", "V", "R", "pure"]
C03_KEYS = ["jac", "grad", "djac", "gjac", "tj", "tmean", "tvar"]
VEC_KEYS = {"ode", "R", "pure", "tmean", "tvar"}
SYM_TOL = mpmath.mpf("1e-12")
NUM_TOL = 1e-9


def spec_shape(key, ns, np_, ne):
    return {"ode": (ns,), "V": (ns, ne), "R": (ne,), "pure": (ns,), "jac": (ns, ns), "grad": (ns, np_),
            "djac": (ns * ns, ns), "gjac": (np_ * ns, ns), "tj": (ne, ne), "tmean": (ne,), "tvar": (ne,)}[key]


def spec_polys(key, out):
    """spec output -> flat list of polys in row-major order"""
    val = out[key]
    if key in VEC_KEYS:
        return [codec.P(t) for t in val]
    return [codec.P(t) for row in val for t in row]


def sym_matrix_eval(expr, values, dps=30):
    """evaluate a sympy matrix / vector at the named values; returns flat row-major list of mpf"""
    M = sympy.Matrix(expr) if not isinstance(expr, sympy.MatrixBase) else expr
    syms = sorted(M.free_symbols, key=str)
    missing = [str(s) for s in syms if str(s) not in values]
    if missing:
        raise KeyError("symbols not in the model's state/parameter lists: %s" % missing)
    f = sympy.lambdify(syms, M, modules="mpmath")
    with mpmath.workdps(dps):
        args = [mpmath.mpf(values[str(s)].numerator) / values[str(s)].denominator for s in syms]
        res = f(*args)
        rows, cols = M.shape
        return [mpmath.mpf(res[i, j]) for i in range(rows) for j in range(cols)], (rows, cols)


def warmup(defn, keys, rng):
    """callback for build.build: evaluate (and so compile) evaluators on the partially built model, in
    random order, the way a user inspects a model while assembling it.  What they return is not judged
    here (the intermediate model is another state of the specification, replayed on its own); the point
    is that the FINAL comparison then meets evaluators that were compiled before later add_* calls."""
    sy = defn.sy

    def cb(m, ne):
        pt = gen.random_point(rng, sy)
        names = [NUM_EVALS[k] for k in keys if k in NUM_EVALS] + ["ode"]
        rng.shuffle(names)
        try:
            m.parameters = [float(v) for v in pt[sy.ns + 1:sy.ns + 1 + sy.np]]
        except Exception:
            return
        for nm in names[:rng.randint(1, len(names))]:
            if ne == 0 and nm in ("vMat", "eventRateVector", "transitionJacobian", "transitionMean", "transitionVar"):
                continue
            try:
                getattr(m, nm)([float(v) for v in pt[:sy.ns]], float(pt[sy.ns]))
            except Exception:
                pass
        if rng.random() < 0.5:
            try:
                m.get_ode_eqn()
            except Exception:
                pass
    return cb


def compare_model(defn, m, out, events, keys, rng, numeric=True, npoints=3, cython_model=None,
                  reactant=True):
    """returns list of mismatch dicts {key, kind, detail}"""
    sy = defn.sy
    ns, np_, ne = sy.ns, sy.np, len(events)
    mism = []
    points = [gen.random_point(rng, sy) for _ in range(npoints)]
    names = sy.names()
    keys = list(keys)
    rng.shuffle(keys)
    for key in keys:
        if ne == 0 and key in ("V", "R", "tj", "tmean", "tvar"):
            continue
        if np_ == 0 and key in ("grad", "gjac"):
            continue
        polys = spec_polys(key, out)
        shp = spec_shape(key, ns, np_, ne)
        # ---- symbolic identity
        try:
            expr = getattr(m, SYM_GETTERS[key])()
        except Exception as ex:      # the model is well formed: the getter must not raise
            mism.append({"key": key, "kind": "symbolic-raised", "detail": repr(ex)[:300]})
            continue
        for pt in points:
            values = {nm: v for nm, v in zip(names, pt)}
            try:
                got, gshape = sym_matrix_eval(expr, values)
            except Exception as ex:
                mism.append({"key": key, "kind": "symbolic-eval", "detail": repr(ex)[:300]})
                break
            if len(got) != len(polys):
                mism.append({"key": key, "kind": "symbolic-shape", "detail": "%s vs spec %s" % (gshape, shp)})
                break
            if len(shp) == 2 and tuple(gshape) != tuple(shp) and 1 not in shp and 0 not in shp:
                mism.append({"key": key, "kind": "symbolic-shape", "detail": "%s vs spec %s" % (gshape, shp)})
                break
            with mpmath.workdps(30):
                fp = codec.full_point(sy, [mpmath.mpf(v.numerator) / v.denominator for v in pt], mp=True)
                bad = None
                for idx, (g, p) in enumerate(zip(got, polys)):
                    e, sc = codec.peval(sy, p, fp, mp=True, scale=True)
                    if abs(g - e) > SYM_TOL * (sc + abs(g)) + mpmath.mpf("1e-25"):
                        bad = (idx, g, e)
                        break
            if bad:
                mism.append({"key": key, "kind": "symbolic-value",
                             "detail": "entry %d: pygom %s spec %s at %s" %
                                       (bad[0], mpmath.nstr(bad[1], 12), mpmath.nstr(bad[2], 12),
                                        {k: str(v) for k, v in values.items()})})
                break
        if not numeric:
            continue
        # ---- compiled evaluator
        for mm, tag in ((m, "lambda"), (cython_model, "cython")):
            if mm is None:
                continue
            # all points are evaluated first and the results are HELD while the later calls are made (a user tabulating a
            # Jacobian along a trajectory does the same): what a call returned must not change afterwards
            held = []
            failed = False
            for pt in points:
                x = [float(v) for v in pt[:ns]]
                t = float(pt[ns])
                theta = [float(v) for v in pt[ns + 1:ns + 1 + np_]]
                try:
                    mm.parameters = theta
                    held.append((pt, x, t, theta, build.evaluate(mm, NUM_EVALS[key], x, t, ns, np_, ne)))
                except Exception as ex:
                    mism.append({"key": key, "kind": "numeric-raised-" + tag, "detail": repr(ex)[:300]})
                    failed = True
                    break
            if failed:
                continue
            for pt, x, t, theta, val in held:
                fp = codec.full_point(sy, [float(v) for v in pt])
                flat = val.reshape(-1)
                bad = None
                # an entry whose terms cancel (exactly 0 for the specification) comes back from floating-point evaluation
                # as a rounding residue of the size of the terms that cancelled: the tolerance of every entry therefore
                # also has a floor relative to the largest entry scale of the same object at this point
                evs = [codec.peval(sy, p, fp, scale=True) for p in polys]
                floor = NUM_TOL * max([float(sc) for _e, sc in evs] + [0.0])
                for idx, (g, (e, sc)) in enumerate(zip(flat, evs)):
                    if not (abs(g - e) <= NUM_TOL * (sc + abs(g)) + floor + 1e-300):
                        bad = (idx, float(g), float(e))
                        break
                if bad:
                    mism.append({"key": key, "kind": "numeric-value-" + tag,
                                 "detail": "entry %d: pygom %r spec %r at x=%s t=%s theta=%s" % (bad + (x, t, theta))})
                    break
    # reactant matrix
    if reactant and ne > 0 and "ode" in keys:
        try:
            lam = np.asarray(m.get_ReactantMatrix())
            exp = np.asarray(out["reactant"]).reshape(ns, ne)
            if lam.shape != exp.shape or not np.array_equal(lam, exp):
                mism.append({"key": "reactant", "kind": "value", "detail": "%s vs spec %s" % (lam.tolist(), exp.tolist())})
        except Exception as ex:
            mism.append({"key": "reactant", "kind": "raised", "detail": repr(ex)[:300]})
    return mism


def run_tlc_oracle(jobs, workdir, tag, timeout=900):
    """jobs: list of JSON-able definition dicts -> list of result dicts (same order)"""
    inp = os.path.join(workdir, "or_in_%s.json" % tag)
    outp = os.path.join(workdir, "or_out_%s.json" % tag)
    with open(inp, "w") as f:
        json.dump(jobs, f)
    res = tlc.run("OR_ModelDef", cfg="Empty", env={"OR_IN": inp, "OR_OUT": outp}, timeout=timeout)
    with open(outp) as f:
        outs = json.load(f)
    if len(outs) != len(jobs):
        raise tlc.TLCError("oracle returned %d results for %d jobs" % (len(outs), len(jobs)))
    return outs, res


def chunk_worker(args):
    """generate, build, ask the specification, compare.  Runs in a worker process."""
    seed, ids, opts = args
    workdir = tlc.scratch_dir("pygom_or_")
    try:
        keys = opts["keys"]
        want = [k for k in keys if k not in ("ode", "V", "R", "pure")]
        items, jobs = [], []
        for i in ids:
            rng = random.Random((seed << 20) + i)
            defn = gen.random_defn(rng, **opts.get("gen", {}))
            for p in defn.procs:
                if p["kind"] == "event":
                    rs = [r for r in build.valid_routes(p) if r in opts.get("routes", ["E", "E1", "T"])]
                    p["route"] = rng.choice(rs)
                p["how"] = rng.choice(["ctor", "ctor", "add"])
            sform = rng.choice(["list", "space", "comma", "tuples", "commaspace"])
            pform = rng.choice(["list", "space", "comma"])
            rec = {"id": i, "defn": defn, "build_error": None}
            try:
                m, events, odes = build.build(defn, rng=rng, style=rng.randrange(6), sform=sform, pform=pform,
                                              on_step=warmup(defn, keys, rng))
                rec.update(m=m, events=events, odes=odes)
            except Exception as ex:
                rec["build_error"] = "".join(traceback.format_exception_only(type(ex), ex))[:400]
                # the definition is well formed by construction: keep it in the oracle run anyway
                events = defn.events()
                odes = [{"kind": "ode", "st": o["st"], "eqn": o["eqn"]} for o in defn.odes()]
                rec.update(m=None, events=events, odes=odes)
            jobs.append(defn.to_json(i, want=want, events=rec["events"], odes=rec["odes"]))
            items.append(rec)
        outs, tres = run_tlc_oracle(jobs, workdir, "%d_%d" % (seed, ids[0]))
        results = []
        for rec, out in zip(items, outs):
            defn = rec["defn"]
            rng = random.Random((seed << 20) + rec["id"] + 7919)
            r = {"id": rec["id"], "describe": defn.describe(), "mism": [], "spec": {
                "wf": out["wf"], "odeIsVR": out["odeIsVR"], "closed": out["closed"],
                "conserves": out["conserves"], "colsZero": out["colsZero"], "support": out["support"]},
                "ns": defn.sy.ns, "np": defn.sy.np, "ne": len(rec["events"]), "natoms": len(defn.sy.atoms),
                "nd": defn.sy.nd, "nodes": len(rec["odes"])}
            if rec["build_error"]:
                r["mism"].append({"key": "build", "kind": "raised", "detail": rec["build_error"]})
            else:
                cy = None
                if opts.get("cython_every") and rec["id"] % opts["cython_every"] == 0:
                    try:
                        cy, _, _ = build.build(defn, rng=random.Random(rec["id"]), backend="cython")
                    except Exception as ex:
                        r["mism"].append({"key": "build", "kind": "raised-cython", "detail": repr(ex)[:300]})
                    r["cython"] = True
                r["mism"] += compare_model(defn, rec["m"], out, rec["events"], keys, rng,
                                           numeric=opts.get("numeric", True), cython_model=cy)
                if opts.get("conservation") and out["closed"]:
                    # C10: the components PyGOM reports sum to the zero function
                    try:
                        tot = sum(list(rec["m"].get_ode_eqn()), sympy.Integer(0))
                        pts = [gen.random_point(rng, defn.sy) for _ in range(3)]
                        for pt in pts:
                            vals = {nm: v for nm, v in zip(defn.sy.names(), pt)}
                            got, _ = sym_matrix_eval(sympy.Matrix([tot]), vals)
                            sc, _ = sym_matrix_eval(sympy.Matrix([sum([abs(c) for c in rec["m"].get_ode_eqn()], sympy.Integer(0))]), vals)
                            if abs(got[0]) > SYM_TOL * (abs(sc[0]) + 1):
                                r["mism"].append({"key": "conservation", "kind": "symbolic-value",
                                                  "detail": "sum of ODE components = %s" % mpmath.nstr(got[0], 10)})
                                break
                    except Exception as ex:
                        r["mism"].append({"key": "conservation", "kind": "raised", "detail": repr(ex)[:300]})
            results.append(r)
        return {"results": results, "tlc_wall": tres.wall}
    finally:
        shutil.rmtree(workdir, ignore_errors=True)


# what every variant of a process set must agree on (the derivative evaluators are used between the add_* calls too)
VARIANT_KEYS = ["ode", "jac", "grad", "djac"]


def variants_worker(args):
    """C12: one abstract process set, several routes / orders / declaration forms; every variant must
    give the ODE (and numeric ode / jacobian) the specification derives for the process set."""
    seed, ids, opts = args
    workdir = tlc.scratch_dir("pygom_or_")
    try:
        items, jobs = [], []
        for i in ids:
            rng = random.Random((seed << 20) + i)
            defn = gen.random_defn(rng, **opts.get("gen", {}))
            jobs.append(defn.to_json(i, want=["jac", "grad", "djac"]))
            items.append((i, defn))
        outs, tres = run_tlc_oracle(jobs, workdir, "v%d_%d" % (seed, ids[0]))
        results = []
        for (i, defn), out in zip(items, outs):
            rng = random.Random((seed << 20) + i + 104729)
            r = {"id": i, "describe": defn.describe(), "mism": [], "variants": [], "ns": defn.sy.ns,
                 "np": defn.sy.np, "ne": len(defn.events())}
            sy = defn.sy
            for v in range(opts.get("variants", 4)):
                order = list(range(len(defn.procs)))
                rng.shuffle(order)
                procs = [defn.procs[k] for k in order]
                routes = [rng.choice(build.valid_routes(p)) for p in procs]
                hows = [rng.choice(["ctor", "add"]) for _ in procs]
                vd = gen.Defn(sy, defn.derived, procs, lims=defn.lims, decl=defn.decl)
                sform = rng.choice(["list", "space", "comma", "tuples", "commaspace"])
                pform = rng.choice(["list", "space", "comma", "commaspace", "tuple"])
                desc = {"order": order, "routes": routes, "hows": hows, "sform": sform, "pform": pform}
                r["variants"].append(desc)
                try:
                    m, events, odes = build.build(vd, rng=rng, style=rng.randrange(6), sform=sform, pform=pform,
                                                  routes=routes, hows=hows, on_step=warmup(vd, VARIANT_KEYS, rng))
                except Exception as ex:
                    r["mism"].append({"key": "build", "kind": "raised", "variant": desc,
                                      "detail": "".join(traceback.format_exception_only(type(ex), ex))[:300]})
                    continue
                mm = compare_model(vd, m, out, events, VARIANT_KEYS, rng, numeric=True, npoints=2, reactant=False)
                # rate vector up to the event permutation, when every process stayed an event
                if not mm and all(rt != "ODE" for rt, p in zip(routes, procs) if p["kind"] == "event") \
                        and len(defn.events()) > 0:
                    try:
                        pt = gen.random_point(rng, sy)
                        m.parameters = [float(x) for x in pt[sy.ns + 1:sy.ns + 1 + sy.np]]
                        got = np.sort(np.asarray(m.eventRateVector([float(x) for x in pt[:sy.ns]], float(pt[sy.ns])),
                                                 float).reshape(-1))
                        fp = codec.full_point(sy, [float(x) for x in pt])
                        exp = np.sort(np.array([codec.peval(sy, codec.P(t), fp) for t in out["R"]], float))
                        if got.shape != exp.shape or not np.allclose(got, exp, rtol=1e-9, atol=1e-12):
                            mm.append({"key": "R", "kind": "numeric-multiset", "detail": "%s vs %s" % (got, exp)})
                    except Exception as ex:
                        mm.append({"key": "R", "kind": "numeric-raised", "detail": repr(ex)[:300]})
                for x in mm:
                    x["variant"] = desc
                r["mism"] += mm
            results.append(r)
        return {"results": results, "tlc_wall": tres.wall}
    finally:
        shutil.rmtree(workdir, ignore_errors=True)
