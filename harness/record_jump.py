"""Mode A for layer L6: run the real stochastic simulator on random event models with the
wrappers of harness/instrument.py installed, and turn what was recorded into the trace
format of spec/TR_Jump.tla (one file per model, many runs per file)."""
import json
import os
import random
import signal
from fractions import Fraction

import numpy as np

from harness import build, instrument
from engine import codec, gen
from engine.codec import Symbols, pmul, psym, pconst, padd, pscale

NOLIM = None


EXPLODED = 1e7


class Timeout(Exception):
    pass


def _alarm(signum, frame):
    raise Timeout()


# ---------------------------------------------------------------------------
# generator of bounded-rate event models

def _random_event(rng, sy, np_, closed, in_rate, origins, usable=None):
    """one event process over the symbols of sy (the last parameter is N); states it reads or drains are added to
    in_rate / origins.  usable: the 1-based states that may be read or drained (default: all)"""
    ns, n = sy.ns, sy.n
    iN = sy.idx_param(np_)
    st = lambda i: psym(sy.idx_state(i), n)
    pa = lambda k: psym(sy.idx_param(k), n)
    usable = list(usable) if usable is not None else list(range(1, ns + 1))
    ntr = rng.choice([1, 1, 1, 2, 2, 3])
    trs = []
    for _k in range(ntr):
        ty = "T" if closed else rng.choice(["T", "T", "B", "D"])
        if ty == "T" and ns < 2:
            ty = rng.choice(["B", "D"])
        if ty in ("T", "D") and not usable:
            ty = "B"
        mag = rng.choice([1, 1, 1, 2, 3])
        if ty == "T":
            o = rng.choice(usable)
            d = rng.choice([i for i in range(1, ns + 1) if i != o])
        elif ty == "B":
            o, d = 0, rng.randint(1, ns)
        else:
            o, d = rng.choice(usable), 0
        if o:
            origins.add(o)
        trs.append({"ty": ty, "o": o, "d": d, "mag": pconst(mag, n)})
    o0 = next((t["o"] for t in trs if t["o"]), 0)
    kind = rng.choice(["linear", "linear", "mass", "norm", "const", "two"]) if o0 else \
        rng.choice(["const", "const", "linear"] if usable else ["const"])
    th = pa(rng.randrange(np_))
    xi = (o0 - 1) if o0 else (rng.choice(usable) - 1 if usable else 0)
    yi = (rng.choice(usable) - 1) if usable else 0
    if kind == "linear":
        r = pmul(th, st(xi)); in_rate.add(xi + 1)
    elif kind == "mass":
        r = pmul(th, pmul(st(xi), st(yi))); in_rate |= {xi + 1, yi + 1}
    elif kind == "norm":
        r = pmul(pmul(th, pmul(st(xi), st(yi))), psym(iN, n, -1)); in_rate |= {xi + 1, yi + 1}
    elif kind == "const":
        r = th
    else:
        r = padd(pmul(th, st(xi)), pscale(Fraction(1, 2), pmul(pa(rng.randrange(np_)), pmul(st(xi), st(yi)))))
        in_rate |= {xi + 1, yi + 1}
    return {"kind": "event", "rate": r, "trs": trs, "route": "E"}


def extra_event(rng, defn, lims):
    """an event to be ADDED to an existing model (add_event / add_transition / add_birth_death after simulations have been
    run): it reads and drains only states whose declared lower limit is >= 0, like the generator above"""
    sy = defn.sy
    usable = [i for i in range(1, sy.ns + 1) if lims[i - 1][0] is not None and lims[i - 1][0] >= 0]
    return _random_event(rng, sy, sy.np - 1, False, set(), set(), usable=usable)


def random_jump_model(rng, closed=False, shape=None, limits=True):
    """returns (Defn, theta (Fractions), x0 (ints), lims)"""
    shape = shape or rng.choice(["any"] * 6 + ["single_event", "single_state", "single_both"])
    ns = 1 if shape in ("single_state", "single_both") else rng.randint(2 if closed else 1, 5)
    ne = 1 if shape in ("single_event", "single_both") else rng.randint(1, 5)
    if closed and ns < 2:
        ns = 2
    np_ = rng.randint(1, 4)
    states = rng.sample(gen.STATE_NAMES, ns)
    params = rng.sample([p for p in gen.PARAM_NAMES if p != "N"], np_) + ["N"]
    sy = Symbols(states, params)
    n = sy.n
    iN = sy.idx_param(np_)
    st = lambda i: psym(sy.idx_state(i), n)
    pa = lambda k: psym(sy.idx_param(k), n)
    procs = []
    in_rate = set()
    origins = set()
    for _ in range(ne):
        procs.append(_random_event(rng, sy, np_, closed, in_rate, origins))
    # limits: states mentioned by a rate (or used as origin) keep a lower limit >= 0
    lims = []
    for i in range(1, ns + 1):
        if not limits:
            lims.append((0, None))
            continue
        sink = i not in in_rate and i not in origins
        k = rng.random()
        if sink and k < 0.3:
            # sinks may carry any limits, also ones that are exactly 0 or negative (they start inside them)
            lims.append(rng.choice([(None, None), (None, rng.randint(8, 30)), (None, 0), (-rng.randint(3, 9), 0)]))
        elif k < 0.55:
            lims.append((0, None))
        elif k < 0.8:
            lims.append((0, rng.randint(6, 40)))
        else:
            lims.append((rng.randint(0, 2), rng.randint(10, 40)))
    x0 = []
    for lo, hi in lims:
        a = lo if lo is not None else (0 if (hi is None or hi > 0) else hi - 6)
        b = min(hi if hi is not None else 25, 25)
        x0.append(rng.randint(a, max(a, b)) if rng.random() < 0.8 else a)     # sometimes start at the boundary
    theta = [Fraction(rng.randint(1, 16), 8) for _ in range(np_)] + [Fraction(rng.choice([8, 16, 32, 64]))]
    decl = {}
    if limits and ns >= 2 and rng.random() < 0.2:
        # range-style declaration of the first k states ('y1:<k+1>', optionally with one limit pair for all of
        # them, optionally wrapped in an ODEVariable whose display name differs from its ID); the rest by name
        k = rng.randint(2, ns)
        odevar = rng.random() < 0.4          # an ODEVariable is accepted bare only (default limits)
        lim = (0, None) if odevar else \
            rng.choice([(0, None), (0, None), (0, rng.randint(6, 40)), (rng.randint(0, 1), rng.randint(10, 40))])
        for i in range(k):
            sy.states[i] = "y%d" % (i + 1)
            lims[i] = lim
            a = lim[0]
            b = min(lim[1] if lim[1] is not None else 25, 25)
            x0[i] = rng.randint(a, max(a, b)) if rng.random() < 0.8 else a
        decl = {"range": k, "range_lim": (None if odevar else (lim if (lim != (0, None) or rng.random() < 0.5) else None)),
                "range_odevar": odevar}
    defn = gen.Defn(sy, [], procs, lims=lims, decl=decl)
    return defn, theta, x0, lims


def rate_float(defn, theta, x):
    sy = defn.sy
    pt = [float(v) for v in x] + [0.0] + [float(v) for v in theta]
    return [codec.peval(sy, p["rate"], pt) for p in defn.events()]


# ---------------------------------------------------------------------------
# running and recording

def make_model(defn, theta, x0, lims, rng, backend="lambda"):
    defn.lims = lims
    explicit = any(l != (0, None) for l in lims) or rng.random() < 0.5 or bool(defn.decl.get("range"))
    m, events, _ = build.build(defn, rng=rng, style=rng.randrange(6), sform="tuples" if explicit else rng.choice(["list", "space"]),
                               backend=backend)
    m.parameters = [float(v) for v in theta]
    m.initial_values = (np.array(x0, float) if rng.random() < 0.5 else [float(v) for v in x0], np.float64(0))
    return m, events


def run_plan(rng, quick_len):
    """the runs performed on one model: (exact, grid kind, pre_tau, epsilon)"""
    plan = []
    for exact in (True, False):
        plan.append({"exact": exact, "grid": None})
        plan.append({"exact": exact, "grid": rng.choice(["list", "tuple", "array"])})
    plan.append({"exact": True, "grid": None})
    plan.append({"exact": rng.random() < 0.7, "grid": None, "parallel": True})      # the dask route, run in-process
    plan.append({"exact": False, "grid": None, "pre_tau": rng.choice([0.25, 1.0, 4.0])})
    plan.append({"exact": False, "grid": rng.choice(["list", "array"]), "epsilon": rng.choice([0.1, 0.3])})
    plan.append({"exact": True, "grid": "array", "long": True})     # grid far past the end of the dynamics
    return plan


def perform(m, defn, theta, x0, plan, rng, seed, max_steps=250):
    """returns list of run records (raw recorder output + what solve_stochast returned)"""
    r0 = sum(rate_float(defn, theta, x0))
    runs = []
    for k, p in enumerate(plan):
        horizon = min(8.0, max_steps / (4.0 * r0)) if r0 > 0 else 1.0
        horizon = float(np.float64(horizon) * rng.choice([0.5, 1.0]))
        if p.get("long"):
            horizon *= 3
        m.pre_tau = p.get("pre_tau")
        m._epsilon = p.get("epsilon", 0.03)
        # the initial time need not be zero (a large one makes absolute-versus-relative time comparisons visible)
        t_start = float(rng.choice([0.0, 0.0, 0.0, 250.0, 1000.0]))
        m.initial_values = (np.array(x0, float), np.float64(t_start))
        if p["grid"]:
            npts = rng.randint(3, 9)
            if rng.random() < 0.5:
                g = t_start + np.linspace(0.0, horizon, npts)
            else:
                g = t_start + np.concatenate([[0.0], np.sort(np.array([rng.uniform(0, horizon) for _ in range(npts - 1)]))])
        else:
            g = None
            tin = (t_start + horizon) if rng.random() < 0.7 else np.float64(t_start + horizon)
        s = (seed * 1000 + k) % (2 ** 31)
        if g is not None:
            # now and then one requested time occurs twice (a fine and a coarse grid joined at a shared breakpoint); decided
            # from the run's seed so that the random stream of the generator is not disturbed
            if s % 7 == 3 and len(g) >= 4:
                j = len(g) // 2
                g = np.concatenate([g[:j + 1], g[j:]])
            tin = {"list": list(g), "tuple": tuple(g), "array": g}[p["grid"]]
        # the option may be any truthy / falsy value (a numpy bool from a comparison, 1 / 0), not only the builtin constants
        exact_arg = ((True, np.True_, 1) if p["exact"] else (False, np.False_, 0))[s % 3]
        # the horizon the USER asked for: the scalar, or the last requested time
        asked = float(g[-1]) if g is not None else float(tin)
        rec_run = {"plan": dict(p), "seed": s, "horizon": horizon, "grid": None if g is None else [float(v) for v in g],
                   "asked_final": asked}
        with instrument.recording() as rec:
            np.random.seed(s)
            signal.signal(signal.SIGALRM, _alarm)
            # repeating: should the first Timeout be swallowed (raised inside a finalizer or a __del__), the next one
            # comes two seconds later
            signal.setitimer(signal.ITIMER_REAL, 20, 2)
            try:
                if p.get("parallel"):
                    import dask
                    with dask.config.set(scheduler="synchronous"):
                        out = m.solve_stochast(tin, 1, parallel=True, exact=exact_arg, full_output=True)
                else:
                    out = m.solve_stochast(tin, 1, exact=exact_arg, full_output=True)
                rec_run["out"] = out
                rec_run["raised"] = None
            except (Timeout, instrument.TooLong, instrument.Exploded):
                signal.setitimer(signal.ITIMER_REAL, 0)
                # slow (or stopped by the recorder: absurd length, population beyond every bound) is not wrong: the run is
                # judged on a prefix of its attempts; only a loop that no longer advances time is a violation
                att = rec.runs[-1]["attempts"] if rec.runs else []      # (rec.cur is cleared when the exception passes _jump)
                stuck = len(att) > 2000 and len(set(a["tb"] for a in att[-2000:])) == 1
                rec_run["raised"] = ("STUCK: the simulation loop made 2000 attempts without advancing time"
                                     if stuck else None)
                rec_run["slow"] = not stuck
                rec_run["out"] = None
            except Exception as ex:
                rec_run["raised"] = repr(ex)[:300]
                rec_run["out"] = None
            finally:
                signal.setitimer(signal.ITIMER_REAL, 0)
        rec_run["rec"] = rec.runs[0] if rec.runs else None
        rec_run["nruns"] = len(rec.runs)
        rec_run["foreign_rng"] = rec.foreign_rng
        runs.append(rec_run)
    return runs


# ---------------------------------------------------------------------------
# conversion to the TR_Jump trace format

def _ints(a):
    a = np.asarray(a, float).reshape(-1)
    r = np.rint(a)
    if not np.all(np.abs(a - r) < 1e-9):
        return None
    return [int(v) for v in r]


def to_trace_run(run, defn):
    """returns (trace dict or None, python-level finding or None, discard reason or None)"""
    ne = len(defn.events())
    if run["raised"]:
        stage = "gridding" if (run["rec"] is not None and run["rec"]["raw"] is not None) else "jump"
        # the properties quantify over BOUNDED-RATE models: a generated model whose population has left every bound
        # before the failure (e.g. a birth rate quadratic in the state: finite-time blow-up, numpy then refuses the
        # Poisson mean) is outside them
        att = run["rec"]["attempts"] if run["rec"] is not None else []
        if stage == "jump" and any(np.max(np.abs(a["xb"])) > EXPLODED for a in att[-3:]):
            return None, None, "population beyond %g before the failure: not a bounded-rate model" % EXPLODED
        return None, {"what": "solve_stochast raised / did not return", "detail": run["raised"], "stage": stage}, None
    rec = run["rec"]
    if rec is None or run["nruns"] != 1:
        return None, None, "recorder saw %d _jump calls" % run["nruns"]
    # a run that is too long (or too slow) for whole-trace validation is still judged on a PREFIX of its attempts:
    # every step of the prefix must be a step of the specification (what was returned at the end is not examined)
    truncated = bool(run.get("slow")) or len(rec["attempts"]) > 600
    if truncated:
        rec = dict(rec)
        rec["attempts"] = rec["attempts"][:400]
        if not rec["attempts"]:
            return None, None, "too slow to judge and nothing recorded"
    # what the USER asked for (the option handed to solve_stochast), not what reached the stepper
    want_exact = bool(run["plan"]["exact"])
    parallel = bool(run["plan"].get("parallel"))
    # the horizon of the run is the one the user asked for, not the one that reached the stepper
    final = run.get("asked_final", rec["finalT"])
    times = {rec["t0"], final}
    if run["grid"]:
        times |= set(run["grid"])
    evs = []
    checkdraws = True
    for a in rec["attempts"]:
        res = a["result"]
        if a["raised"] or res is None or len(res) != 5:
            return None, {"what": "an attempt raised or returned a malformed result", "detail": str(a["raised"] or res)[:200]}, None
        t_new, dt, x_new, jumps, ok = res
        if np.max(np.abs(np.asarray(a["xb"], float))) > 1000 or \
                (np.ndim(x_new) and np.max(np.abs(np.asarray(x_new, float))) > 1000 and np.all(np.isfinite(np.asarray(x_new, float)))):
            # TLC evaluates the rates exactly with 32-bit integers: judge the prefix up to here
            truncated = True
            break
        xb = _ints(a["xb"])
        if xb is None:
            return None, {"what": "non-integer state handed to the stepper", "detail": str(a["xb"])}, None
        if (not ok) and isinstance(jumps, int) and jumps == 0 and np.ndim(x_new) == 0:
            evs.append({"ev": "Zero", "xb": xb})
            continue
        xa = _ints(x_new)
        cnt = _ints(jumps)
        if xa is None or cnt is None or len(cnt) != ne:
            return None, {"what": "non-integer state or counts in a step", "detail": "x=%s counts=%s" % (x_new, jumps)}, None
        t_new = float(t_new)
        times.add(t_new)
        e = {"ev": a["kind"], "xb": xb, "ok": bool(ok), "xa": xa, "counts": cnt, "_t": t_new}
        if a["kind"] == "FR":
            ones = [i for i, c in enumerate(cnt) if c == 1]
            if len(ones) != 1 or any(c not in (0, 1) for c in cnt):
                return None, {"what": "an exact step does not report exactly one event", "detail": str(cnt)}, None
            e["chosen"] = ones[0] + 1
            clocks, exps = a["clocks"], a["exp"]
            draws = []
            if clocks is None:
                checkdraws = False
            else:
                fin = [(i, v) for i, v in enumerate(clocks) if np.isfinite(v)]
                vals = sorted(set(v for _, v in fin))
                for k, (i, v) in enumerate(fin):
                    if k < len(exps):
                        sc = Fraction(exps[k][0]).limit_denominator(2 ** 30)      # exact for every rate whose numerator fits TLC integers
                        glob = (exps[k][1] == v and exps[k][2] == 1)
                    else:
                        sc, glob = Fraction(0), False
                    draws.append({"e": i + 1, "scale": [sc.numerator, sc.denominator], "vr": vals.index(v) + 1,
                                  "global": bool(glob) and len(exps) == len(fin) and a["foreign_rng"] == 0})
                e["dtr"] = (vals.index(float(dt)) + 1) if float(dt) in vals else 0
            e["draws"] = draws
            if "dtr" not in e:
                e["dtr"] = 0
        evs.append(e)
    tl = sorted(times)
    rank = {v: i + 1 for i, v in enumerate(tl)}
    if truncated:
        for e in evs:
            if "_t" in e:
                e["tr"] = rank[e.pop("_t")]
        return {"exact": want_exact, "x0": _ints(rec["x0"]), "t0r": rank[rec["t0"]], "horizonr": rank[final],
                "checkdraws": bool(checkdraws and want_exact and not parallel), "events": evs, "truncated": True}, None, None
    evs.append({"ev": "End"})
    out = run["out"]
    if run["grid"]:
        g = run["grid"]
        evtimes = [e["_t"] for e in evs if "_t" in e and e.get("ok")]
        if any(t in g for t in evtimes):
            return None, None, "an event time coincides with a grid time"
        X, J = out[0][0], out[1][0]
        rows = np.asarray(X, float)
        if rows.ndim != 2:
            return None, {"what": "gridded output is not a table", "detail": str(rows.shape), "stage": "gridding"}, None
        if want_exact:
            ri = [_ints(r) for r in rows]
            ci = [_ints(c) for c in np.asarray(J, float)] if len(J) else []
            if any(r is None for r in ri) or any(c is None for c in ci):
                return None, {"what": "non-integer gridded rows / counts in exact mode", "detail": str(rows[:3].tolist())[:200],
                              "stage": "gridding"}, None
        else:
            ri = [[int(np.floor(v)) for v in r] for r in rows]
            ri[0] = _ints(rows[0]) or ri[0]
            ci = [[0] * ne for _ in range(len(np.asarray(J)))]
        evs.append({"ev": "Gridded", "grid": [rank[v] for v in g], "rows": ri, "counts": ci})
    else:
        X, J, T = out[0][0], out[1][0], out[2][0]
        Xi = [_ints(r) for r in np.asarray(X, float)]
        Ji = [_ints(r) for r in np.asarray(J, float)] if len(J) else []
        if any(r is None for r in Xi) or any(r is None for r in Ji):
            return None, {"what": "non-integer states / counts in the returned path", "detail": ""}, None
        Tl = [float(v) for v in np.asarray(T, float).reshape(-1)]
        if any(v not in rank for v in Tl):
            return None, {"what": "returned time list contains a time no step produced", "detail": str(Tl[:5])}, None
        evs.append({"ev": "Return", "X": Xi, "J": Ji, "T": [rank[v] for v in Tl]})
    for e in evs:
        if "_t" in e:
            e["tr"] = rank[e.pop("_t")]
    x0 = _ints(rec["x0"])
    tr = {"exact": want_exact, "x0": x0, "t0r": rank[rec["t0"]], "horizonr": rank[final],
          "checkdraws": bool(checkdraws and want_exact and not parallel), "events": evs}
    return tr, None, None


def trace_file(defn, events, theta, lims, runs, path):
    doc = {"def": defn.to_json(0, events=events, odes=[]),
           "theta": [[t.numerator, t.denominator] for t in theta],
           "lims": [[0 if lo is None else 1, 0 if lo is None else int(lo), 0 if hi is None else 1, 0 if hi is None else int(hi)]
                    for lo, hi in lims],
           "closed": all(t["ty"] == "T" for e in events for t in e["trs"]),
           "runs": [dict(r, gridonly=bool(r.get("gridonly", False))) for r in runs]}
    with open(path, "w") as f:
        json.dump(doc, f)
    return doc
