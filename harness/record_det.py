"""Mode A for layer L5: call every deterministic entry point of a real model, record the rows step by step
from outside (wrapper on ode_utils._integrateOneStep), and write the trace format of TR_Integrator."""
import json
import math
import random
from fractions import Fraction

import numpy as np

from harness import build
from engine import codec, gen, refnum
from engine.codec import Symbols, pmul, psym, pconst, padd, pscale
from pygom.model import ode_utils

METHODS = [None, "lsoda", "vode", "ivode", "dopri5", "dop853"]


def random_det_model(rng, closed=False, ns=None, nparams=None, positive=False):
    """bounded-rate random model for deterministic solving: returns (Defn, theta, x0, tend).
    ns / nparams fix the number of states / parameters (the last parameter is always the scale N);
    positive: initial values >= 1"""
    ns = ns or rng.randint(2 if closed else 1, 5)
    ne = rng.randint(max(1, ns - 1), 5)
    np_ = (nparams - 1) if nparams else rng.randint(1, 4)
    states = rng.sample(gen.STATE_NAMES, ns)
    params = rng.sample([p for p in gen.PARAM_NAMES if p != "N"], np_) + ["N"]
    # optional atoms: saturating 1/(1+a*X), periodic cos(w*t) / sin(w*t)
    n_plain = ns + 1 + np_ + 1
    atoms_spec = []
    if rng.random() < 0.35:
        atoms_spec.append(("H", pmul(psym(ns + 2 + rng.randrange(np_), n_plain), psym(1 + rng.randrange(ns), n_plain))))
    if rng.random() < 0.3:
        arg = pmul(psym(ns + 2 + rng.randrange(np_), n_plain), psym(ns + 1, n_plain))
        atoms_spec += [("C", arg), ("S", arg)]
    if rng.random() < 0.2:
        atoms_spec.append(("E", pmul(psym(ns + 2 + rng.randrange(np_), n_plain), psym(1 + rng.randrange(ns), n_plain))))
    n = n_plain + len(atoms_spec)
    atoms = []
    for k, (kind, arg) in enumerate(atoms_spec):
        pair = n_plain + k + 2 if kind == "C" else n_plain + k if kind == "S" else 0
        atoms.append({"kind": kind, "arg": codec.ppad(arg, n), "pair": pair})
    sy = Symbols(states, params, [], atoms)
    aidx = {}
    for k, a in enumerate(atoms):
        aidx.setdefault(a["kind"], []).append(sy.idx_atom(k))
    st = lambda i: psym(sy.idx_state(i), n)
    pa = lambda k: psym(sy.idx_param(k), n)
    iN = sy.idx_param(np_)
    procs = []
    for _ in range(ne):
        ntr = rng.choice([1, 1, 2, 3])
        trs = []
        has_birth = False
        for _k in range(ntr):
            ty = "T" if closed else rng.choice(["T", "T", "B", "D"])
            if ty == "T" and ns < 2:
                ty = rng.choice(["B", "D"])
            mag = pconst(rng.choice([1, 1, 2, 3]), n) if rng.random() < 0.8 else pa(rng.randrange(np_))
            if ty == "T":
                o, d = rng.sample(range(1, ns + 1), 2)
            elif ty == "B":
                o, d = 0, rng.randint(1, ns)
                has_birth = True
            else:
                o, d = rng.randint(1, ns), 0
            trs.append({"ty": ty, "o": o, "d": d, "mag": mag})
        o0 = next((t["o"] for t in trs if t["o"]), 0)
        xi = (o0 - 1) if o0 else rng.randrange(ns)
        yi = rng.randrange(ns)
        th = pa(rng.randrange(np_))
        # events that create individuals grow at most linearly; the others may use any bounded shape
        kinds = ["const", "linear"] if has_birth else ["linear", "mass", "norm", "sat", "periodic", "exp", "two"]
        kind = rng.choice(kinds)
        if kind == "sat" and "H" not in aidx:
            kind = "norm"
        if kind == "periodic" and "C" not in aidx:
            kind = "linear"
        if kind == "exp" and "E" not in aidx:
            kind = "mass"
        if kind == "const":
            r = th
        elif kind == "linear":
            r = pmul(th, st(xi))
        elif kind == "mass":
            r = pscale(Fraction(1, 4), pmul(th, pmul(st(xi), st(yi))))
        elif kind == "norm":
            r = pmul(pmul(th, pmul(st(xi), st(yi))), psym(iN, n, -1))
        elif kind == "sat":
            r = pmul(pmul(th, st(xi)), psym(rng.choice(aidx["H"]), n))
        elif kind == "exp":
            r = pmul(pmul(th, st(xi)), psym(rng.choice(aidx["E"]), n))
        elif kind == "periodic":
            r = pmul(pmul(th, st(xi)), padd(pconst(1, n), pscale(Fraction(1, 2), psym(rng.choice(aidx["C"] + aidx["S"]), n))))
        else:
            r = padd(pmul(th, st(xi)), pscale(Fraction(1, 8), pmul(pa(rng.randrange(np_)), pmul(st(xi), st(yi)))))
        procs.append({"kind": "event", "rate": r, "trs": trs, "route": "E"})
    if not closed and rng.random() < 0.3:
        procs.append({"kind": "ode", "st": rng.randint(1, ns), "eqn": pscale(-1, pmul(pa(rng.randrange(np_)), st(rng.randrange(ns))))})
    theta = [Fraction(rng.randint(1, 8), 8) for _ in range(np_)] + [Fraction(rng.choice([8, 16, 32]))]
    x0 = [Fraction(rng.randint(4 if positive else 0, 24), 4) for _ in range(ns)]
    xmax = float(max(x0)) + 1.0
    L = sum(3.0 * float(max(theta[:np_])) * max(1.0, xmax) for _ in procs)
    tend = min(6.0, 8.0 / L)
    return gen.Defn(sy, [], procs), theta, x0, tend


def extra_process(rng, defn):
    """a bounded (at most linear) event process over the symbols of an existing definition, to be ADDED to a model that has
    already been solved"""
    sy = defn.sy
    n, ns = sy.n, sy.ns
    np_ = sy.np - 1                      # the last parameter is the scale N
    st = lambda i: psym(sy.idx_state(i), n)
    th = psym(sy.idx_param(rng.randrange(np_)), n)
    ty = rng.choice(["T", "T", "D", "B"]) if ns >= 2 else rng.choice(["D", "B"])
    mag = pconst(rng.choice([1, 1, 2]), n)
    if ty == "T":
        o, d = rng.sample(range(1, ns + 1), 2)
    elif ty == "D":
        o, d = rng.randint(1, ns), 0
    else:
        o, d = 0, rng.randint(1, ns)
    rate = pmul(th, st(o - 1)) if o else (th if rng.random() < 0.5 else pmul(th, st(rng.randrange(ns))))
    return {"kind": "event", "rate": rate, "trs": [{"ty": ty, "o": o, "d": d, "mag": mag}], "route": "E"}


def time_grid(rng, tend, uniform=None, special=None):
    """grid[0] is the initial time, grid[1:] the requested times.  special: 'origin' -- the first requested time IS the
    initial time (the whole linspace(t0, T, n) handed over, as the package's own examples do); 'repeat' -- one requested
    time occurs twice; 'int' -- whole-number requested times (handed over as Python ints / an integer array by the caller)
    after a fractional initial time"""
    if special == "single":
        # one requested time only (the caller hands it over as a bare number)
        t0 = rng.choice([0.0, 1.5, -2.25])
        return np.array([t0, t0 + rng.uniform(0.3, 1.0) * tend])
    if special == "int":
        last = max(3, int(tend))
        ks = sorted(rng.sample(range(1, last + 1), rng.randint(2, min(last, 6))))
        return np.array([rng.choice([0.5, 0.25, 0.75])] + [float(k) for k in ks])
    npts = rng.randint(4, 10)
    if uniform is None:
        uniform = rng.random() < 0.5
    if uniform:
        g = np.linspace(0.0, tend, npts)
    else:
        g = np.concatenate([[0.0], np.sort(np.array([rng.uniform(0.02 * tend, tend) for _ in range(npts - 1)]))])
    # the initial time need not be zero (time-periodic rates make the difference visible)
    g = g + rng.choice([0.0, 0.0, 1.5, -2.25, 20.0])
    if special == "origin":
        g = np.concatenate([[g[0]], g])
    elif special == "repeat":
        k = rng.randint(1, len(g) - 1)
        g = np.concatenate([g[:k + 1], g[k:]])
    return g


class StepRecorder:
    """snapshots of the contents of every row returned so far, taken after each _integrateOneStep"""

    def __init__(self):
        self.rows = []       # the returned objects themselves (NOT copies): identity is what matters
        self.snaps = []      # after step k: list of copies of all rows so far

    def install(self):
        self.orig = ode_utils._integrateOneStep
        rec = self

        def wrapped(r, t, func, jac, args=(), full_output=False):
            out = rec.orig(r, t, func, jac, args, full_output)
            o1 = out[0] if full_output else out
            rec.rows.append(o1)
            rec.snaps.append([np.array(x, float).copy() for x in rec.rows])
            return out
        ode_utils._integrateOneStep = wrapped

    def remove(self):
        ode_utils._integrateOneStep = self.orig


class SetupRecorder:
    """what the integrator is set up with: the right-hand side and Jacobian callables handed to scipy
    (odeint: Dfun with col_deriv; scipy.integrate.ode: jac(t, y)) evaluated at the initial point"""

    def __init__(self):
        self.info = None

    def install(self):
        import scipy.integrate
        self.sci = scipy.integrate
        self.orig_odeint = scipy.integrate.odeint
        self.orig_setup = ode_utils._setupIntegrator
        rec = self

        def odeint(func, y0, t, *a, **kw):
            if rec.info is None:
                try:
                    y = np.array(y0, float)
                    t0 = float(np.asarray(t, float)[0])
                    f = np.asarray(func(y, t0), float).reshape(-1)
                    J = None if kw.get("Dfun") is None else np.asarray(kw["Dfun"](y, t0), float)
                    rec.info = {"kind": "odeint", "f": f, "J": J, "col_deriv": bool(kw.get("col_deriv", False))}
                except Exception as ex:
                    rec.info = {"kind": "odeint", "error": repr(ex)[:200]}
            return rec.orig_odeint(func, y0, t, *a, **kw)

        def setup(func, jac, x0, t0, args, method, nsteps):
            if rec.info is None:
                try:
                    y = np.array(x0, float)
                    f = np.asarray(func(float(t0), y, *args), float).reshape(-1)
                    J = None if jac is None else np.asarray(jac(float(t0), y, *args), float)
                    rec.info = {"kind": "ode", "f": f, "J": J, "col_deriv": False}
                except Exception as ex:
                    rec.info = {"kind": "ode", "error": repr(ex)[:200]}
            return rec.orig_setup(func, jac, x0, t0, args, method, nsteps)
        scipy.integrate.odeint = odeint
        ode_utils._setupIntegrator = setup

    def remove(self):
        self.sci.odeint = self.orig_odeint
        ode_utils._setupIntegrator = self.orig_setup


def judge_setup(info, f_ref, J_ref):
    """compare what the integrator was set up with to the specification's f and df/dx at the initial point"""
    if info is None:
        return {"rhs": "none", "jac": "none"}
    if "error" in info:
        return {"rhs": "error", "jac": "error", "detail": info["error"]}
    tol = lambda a: 1e-9 * (1.0 + float(np.max(np.abs(a)))) if a.size else 1e-9
    out = {}
    f = info["f"]
    out["rhs"] = "ok" if f.shape == f_ref.shape and np.all(np.abs(f - f_ref) <= tol(f_ref)) else "wrong"
    J = info["J"]
    if J is None:
        out["jac"] = "none"
    else:
        J = J.reshape(J_ref.shape) if J.size == J_ref.size else J
        want = J_ref.T if info.get("col_deriv") else J_ref
        if J.shape == want.shape and np.all(np.abs(J - want) <= tol(J_ref)):
            out["jac"] = "ok"
        elif J.shape == want.shape and np.all(np.abs(J - want.T) <= tol(J_ref)):
            out["jac"] = "transposed"
        else:
            out["jac"] = "wrong"
    return out


def entry_calls(rng, quick):
    """the configurations exercised on one model"""
    calls = [("integrate", "odeint", fo, True) for fo in (False, True)]
    calls.append(("solve_determ", "odeint", False, True))
    ms = METHODS if not quick else rng.sample(METHODS, 3) + [None, "lsoda"]
    for mth in ms:
        for fo in (False, True):
            calls.append(("integrate2", mth, fo, True))
            calls.append(("integrateFuncJac", mth, fo, rng.random() < 0.5))
    seen, out = set(), []
    for c in calls:
        if c not in seen:
            seen.add(c)
            out.append(c)
    return out


def perform_call(m, entry, method, full_output, include_origin, x0, grid, times_as=None):
    """returns (rows returned as 2-d array, step snapshots, error).  times_as: the container / dtype in which the requested
    times are handed over (None: float array; 'int-list', 'int-array', 'list', 'tuple')"""
    full_grid = grid
    if times_as is not None:
        req = {"int-list": lambda g: [int(v) for v in g], "int-array": lambda g: np.array([int(v) for v in g]),
               "list": lambda g: [float(v) for v in g], "tuple": lambda g: tuple(float(v) for v in g),
               "scalar": lambda g: float(g[0])}[times_as](grid[1:])

        class _G:        # grid[0] and grid[1:] as used below
            def __getitem__(self, k):
                return full_grid[0] if k == 0 else req
        grid = _G()
    rec = StepRecorder()
    rec.install()
    srec = SetupRecorder()
    srec.install()
    perform_call.last_setup = None
    try:
        m.initial_values = (np.array(x0, float), float(grid[0]))
        if entry == "integrate":
            out = m.integrate(grid[1:], full_output=full_output)
        elif entry == "solve_determ":
            out = m.solve_determ(grid[1:])
        elif entry == "integrate2":
            out = m.integrate2(grid[1:], full_output=full_output, method=method)
        else:
            out = ode_utils.integrateFuncJac(m.ode_T, m.jacobian_T, np.array(x0, float), float(grid[0]), grid[1:],
                                             includeOrigin=include_origin, full_output=full_output, method=method)
        sol = out[0] if (full_output and entry != "solve_determ") else out
        return np.array(sol, float), rec.snaps, None
    except Exception as ex:
        return None, rec.snaps, repr(ex)[:300]
    finally:
        srec.remove()
        rec.remove()
        perform_call.last_setup = srec.info


def scale_for(ref):
    # TLC integers are 32 bit: a whole row is summed in the conservation clause, so bound the row sum
    mx = max(1.0, float(np.max(np.abs(ref)))) * max(1, np.atleast_2d(ref).shape[1])
    return 10 ** int(math.floor(math.log10((2 ** 30) / mx)))


def to_call_trace(entry, method, full_output, include_origin, ref, sol, snaps, closed, rel_tol, setup=None):
    """ref: (nt+1, ns) reference rows incl. origin; returns trace dict"""
    S = min(scale_for(ref), 10 ** 8)
    tol = rel_tol * (1.0 + float(np.max(np.abs(ref))))
    sc = lambda a: [[int(round(float(v) * S)) for v in row] for row in np.atleast_2d(a)]
    nt = ref.shape[0] - 1
    events = []
    if setup is not None:
        events.append({"ev": "Setup", "rhs": setup["rhs"], "jac": setup["jac"]})
    if method == "odeint":
        events.append({"ev": "Odeint"})
    else:
        for k, snap in enumerate(snaps):
            events.append({"ev": "Step"})
            rows = ([ref[0]] if include_origin else []) + snap
            events.append({"ev": "Append", "rows": sc(np.array(rows, float).reshape(len(rows), -1))})
            if full_output:
                events.append({"ev": "Resetup"})
    events.append({"ev": "Return", "rows": sc(sol.reshape(sol.shape[0], -1)) if sol.size else []})
    return {"entry": entry, "method": "None" if method is None else method, "fullOutput": bool(full_output),
            "includeOrigin": bool(include_origin), "nt": nt, "tol": int(math.ceil(tol * S)) + 1, "scale": S,
            "closed": bool(closed), "sumtol": int(math.ceil(tol * S * ref.shape[1])) + ref.shape[1],
            "ref": sc(ref), "events": events}
