"""Mode G for ParamBind: every TLC-generated history of `parameters = ...` calls is performed on a
fresh real model; after every call the model's evaluators must use exactly the binding the
specification holds (and a rejected call must raise and change nothing)."""
import numpy as np
import sympy

from harness import build          # sets sys.path
from pygom import SimulateOde, Transition, Event
from pygom.model import ode_utils

X = [2.0, 3.0, 5.0, 7.0]


def value(tag):
    c, j = tag
    return (100 * c + 10 * j + 1) / 8.0


WIDTH = 2.0 ** -10


def support(tag):
    """tag <<-c, k>>: the distribution written for name k in call c -- uniform on [lo, lo + WIDTH], supports pairwise
    disjoint and disjoint from every number value() produces"""
    c, k = tag
    lo = 1000.0 + value((-c, k))
    return lo, lo + WIDTH


def distribution(tag, kind):
    lo, hi = support(tag)
    if kind == 0:
        import scipy.stats
        return scipy.stats.uniform(loc=lo, scale=hi - lo)           # frozen distribution
    from pygom.utilR import distn
    if kind == 1:
        return (distn.runif, (lo, hi))                              # (sampler, positional arguments)
    return (distn.runif, {"min": lo, "max": hi})                    # (sampler, keyword arguments)


def make_model(npar):
    names = ["a", "b", "c", "d"][:npar]
    states = ["X%d" % (i + 1) for i in range(npar)]
    ev = [Event(rate="%s*%s" % (p, s), transition_list=[Transition(origin=s, transition_type="D")])
          for p, s in zip(names, states)]
    m = SimulateOde(state=states, param=names, event=ev)
    m._SC = ode_utils.compileCode(backend="lambda")
    return m, names


UNKNOWN_NAMES = ["zz", "t", "X1"]      # not a parameter: an arbitrary name, the time symbol, a state


def make_input(step, c, names, unknown="zz"):
    """the Python object assigned to model.parameters for one specification action"""
    form, nm = step["form"], step["names"]
    npar = len(names)
    name = lambda k: names[k - 1] if k >= 1 else unknown
    act = step["act"]
    vals = [value((c, j + 1)) for j in range(len(nm))]
    if act == "RejectWrongLength" and form == "table":
        # one row per parameter, two columns (say estimate and standard error): the wrong number of values
        return np.array([[v, v + 0.5] for v in vals[:npar]])
    if act == "Positional" or act == "RejectWrongLength" and form != "pairs-list":
        if form == "list":
            return list(vals)
        if form == "tuple":
            return tuple(vals)
        if form == "array":
            return np.array(vals)
        if form == "colarray":
            return np.array(vals).reshape(-1, 1)
        if form == "rowarray":
            return np.array(vals).reshape(1, -1)
    if act in ("Pairs", "RejectUnknownPairs") or (act == "RejectWrongLength" and form == "pairs-list"):
        prs = [(name(k), v) for k, v in zip(nm, vals)]
        return tuple(prs) if form == "pairs-tuple" else prs
    if act in ("Dict", "DictRandom", "RejectUnknownDict", "RejectTooMany"):
        d = {}
        for k in nm:
            # in a Dict action the value written for name k is tag <<c, k>>
            v = value((c, k)) if k >= 1 else value((c, 9))
            if k in step.get("rand", []):
                v = distribution((-c, k), (c + k) % 3)
            elif k >= 1 and (c + k) % 2 == 0:
                v = np.float32(v)       # a number need not be a Python float (the values are dyadic: exact in single precision)
            if form == "dict-sym" and k >= 1:
                d[sympy.Symbol(name(k), real=True) if (c + k) % 2 else sympy.Symbol(name(k))] = v
            else:
                d[name(k)] = v
        return d
    if act == "Scalar":
        return value((c, 1))
    if act == "RejectBadType":
        if form == "string":
            return "abc"
        if form == "list-of-strings":
            return list(names)
        if form == "set":
            return set(value((c, j + 1)) for j in range(npar))
    raise ValueError(step)


def replay(hist, npar):
    """returns None or a mismatch description; a history that names an unknown parameter is performed once per kind
    of unknown name (an arbitrary name, the time symbol, a state name)"""
    has_unknown = any(k < 1 for step in hist for k in step["names"])
    for unknown in (UNKNOWN_NAMES if has_unknown else ["zz"]):
        mm = replay_one(hist, npar, unknown)
        if mm:
            mm["unknown_name"] = unknown
            return mm
    return None


def check_binding(m, x, after, npar):
    """None, or what the evaluators of m show instead of the binding `after`"""
    is_rand = [t[0] < 0 for t in after]
    theta = np.array([support(t)[0] if t[0] < 0 else value(t) for t in after])
    r = np.asarray(m.eventRateVector(x, 0.0), float).reshape(-1)
    exp_r = theta * np.array(x)
    okv = all((support(t)[0] * x[k] * (1 - 1e-12) <= r[k] <= support(t)[1] * x[k] * (1 + 1e-12)) if is_rand[k]
              else (r[k] == exp_r[k]) for k, t in enumerate(after))
    if okv:
        return None
    return {"parameters_shown": (r / np.array(x)).tolist(),
            "expected": [list(support(t)) if is_rand[k] else value(t) for k, t in enumerate(after)]}


def replay_one(hist, npar, unknown):
    m, names = make_model(npar)
    x = X[:npar]
    # a second model that is handed THE SAME dict object as m the first time m is bound by a complete dict containing a
    # distribution (a user who configures two models from one settings dict); nothing done to m afterwards may reach it
    other, other_after = None, None
    for c, step in enumerate(hist, start=1):
        if other is None and step["act"] == "DictRandom" and len(step["names"]) == npar:
            other, _ = make_model(npar)
            shared = make_input(step, c, names, unknown)
            try:
                other.parameters = shared
            except Exception as ex:
                return {"step": c, "what": "accepted input form raised", "input": repr(shared), "raised": repr(ex)[:200]}
            other_after = step["after"]
        else:
            shared = None
        raised = None
        if step["act"] == "Integrate":
            # a call that re-draws the names bound to distributions (and only those)
            inp = step["form"]
            try:
                m.initial_values = (np.array(x), np.float64(0.0))
                if inp == "integrate":
                    m.integrate(np.array([2.0 ** -12]))
                elif inp == "integrate2":
                    m.integrate2(np.array([2.0 ** -12]))
                else:
                    m.solve_stochast(2.0 ** -20, 1)
            except Exception as ex:
                raised = repr(ex)[:200]
        else:
            inp = shared if shared is not None else make_input(step, c, names, unknown)
            try:
                m.parameters = inp
            except Exception as ex:        # any exception counts as "rejected with an error"
                raised = repr(ex)[:200]
        if step["ok"] and raised:
            return {"step": c, "what": "accepted input form raised", "input": repr(inp), "raised": raised}
        if not step["ok"] and not raised:
            return {"step": c, "what": "input that must be rejected was accepted silently", "input": repr(inp)}
        after = step["after"]
        if any(tuple(t) == (0, 0) for t in after):
            continue                   # nothing bound yet: evaluation is not defined
        is_rand = [t[0] < 0 for t in after]
        theta = np.array([support(t)[0] if t[0] < 0 else value(t) for t in after])
        try:
            r = np.asarray(m.eventRateVector(x, 0.0), float).reshape(-1)
            f = np.asarray(m.ode(x, 0.0), float).reshape(-1)
            g = np.asarray(m.grad(x, 0.0), float).reshape(npar, npar)
        except Exception as ex:
            return {"step": c, "what": "evaluation raised after the call", "input": repr(inp), "raised": repr(ex)[:200]}
        exp_r = theta * np.array(x)
        if any(is_rand):
            # a name bound to a distribution shows SOME draw from that distribution's support
            shown = r / np.array(x)
            okv = all((support(t)[0] * x[k] * (1 - 1e-12) <= r[k] <= support(t)[1] * x[k] * (1 + 1e-12)) if is_rand[k]
                      else (r[k] == exp_r[k]) for k, t in enumerate(after))
            if not (okv and np.array_equal(f, -r) and np.array_equal(g, -np.diag(x))):
                return {"step": c, "what": "evaluation does not use the values bound by name",
                        "input": repr(inp), "parameters_shown": shown.tolist(),
                        "expected": [list(support(t)) if is_rand[k] else value(t) for k, t in enumerate(after)]}
            continue
        if not (np.array_equal(r, exp_r) and np.array_equal(f, -exp_r) and np.array_equal(g, -np.diag(x))):
            return {"step": c, "what": "evaluation does not use the values bound by name",
                    "input": repr(inp), "rate_vector": r.tolist(), "expected": exp_r.tolist()}
    if other is not None:
        # the bystander: re-draw, then look at its binding
        try:
            other.initial_values = (np.array(x), np.float64(0.0))
            other.integrate(np.array([2.0 ** -12]))
            bad = check_binding(other, x, other_after, npar)
        except Exception as ex:
            bad = {"raised": repr(ex)[:200]}
        if bad:
            bad.update({"step": len(hist), "what": "a second model bound with the same dict object shows values given to the first",
                        "input": "(dict shared at the first complete DictRandom)"})
            return bad
    return None


def worker(args):
    hists, npar = args
    out = []
    for h in hists:
        mm = replay(h, npar)
        if mm:
            out.append({"hist": h, "mismatch": mm})
    return out, len(hists)
