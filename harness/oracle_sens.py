"""Mode O / A for the augmented sensitivity systems (C13).

O  random non-symmetric definitions -> spec/OR_Sens (TLC) -> the specification's augmented right-hand sides
   and their Jacobians as normal forms over the extended symbol table; PyGOM's ode_and_sensitivity (both
   arrangements), ode_and_sensitivityIV and the three *_jacobian functions are evaluated at points whose
   entries are pairwise distinct dyadics / small integers and compared entry by entry.
A  the augmented systems are integrated through PyGOM's own stepping wrapper (the call BaseLoss.jac / jacIV
   make) and every row is validated by TLC (TR_Integrator) against the reference solution of the
   SPECIFICATION's augmented right-hand side; the reference sensitivities are in turn compared with central
   finite differences of reference solutions of the base ODE.
"""
import json
import os
import random
import shutil
import traceback
from fractions import Fraction

import numpy as np

from engine import codec, gen, tlc, refnum
from engine.codec import Symbols, pmul, psym, pconst, padd, pscale
from harness import build

NUM_TOL = 1e-9
WANT = ["augP", "augS", "augIV", "jacIV"]


def run_tlc_sens(jobs, workdir, tag, timeout=1500):
    inp = os.path.join(workdir, "os_in_%s.json" % tag)
    outp = os.path.join(workdir, "os_out_%s.json" % tag)
    with open(inp, "w") as f:
        json.dump(jobs, f)
    res = tlc.run("OR_Sens", cfg="Empty", env={"OR_IN": inp, "OR_OUT": outp}, timeout=timeout)
    with open(outp) as f:
        outs = json.load(f)
    if len(outs) != len(jobs):
        raise tlc.TLCError("oracle returned %d results for %d jobs" % (len(outs), len(jobs)))
    return outs, res


def noparam_defn(rng):
    """a model without parameters (numeric rate constants only)"""
    ns = rng.randint(1, 3)
    states = rng.sample(gen.STATE_NAMES, ns)
    sy = Symbols(states, [], [], [])
    n = sy.n
    st = lambda i: psym(sy.idx_state(i), n)
    procs = []
    for _ in range(rng.randint(1, 3)):
        x, y = rng.randrange(ns), rng.randrange(ns)
        c = rng.choice([Fraction(1, 2), Fraction(2), Fraction(3, 4), Fraction(1)])
        r = pscale(c, rng.choice([st(x), pmul(st(x), st(y)), pmul(st(x), pmul(st(x), st(y)))]))
        if ns >= 2 and rng.random() < 0.6:
            o, d = rng.sample(range(1, ns + 1), 2)
            tr = {"ty": "T", "o": o, "d": d, "mag": pconst(rng.choice([1, 2]), n)}
        elif rng.random() < 0.5:
            tr = {"ty": "B", "o": 0, "d": rng.randint(1, ns), "mag": pconst(1, n)}
        else:
            tr = {"ty": "D", "o": rng.randint(1, ns), "d": 0, "mag": pconst(rng.choice([1, 3]), n)}
        procs.append({"kind": "event", "rate": r, "trs": [tr], "route": "E"})
    return gen.Defn(sy, [], procs)


def sens_point(rng, sy, n2):
    """values for every symbol of the extended table: definition symbols as gen.random_point, extra symbols
    pairwise distinct small integers (some negative)"""
    base = gen.random_point(rng, sy)
    nex = n2 - sy.n
    ext = rng.sample(range(-2 * nex - 3, 2 * nex + 4), nex)
    return base, [Fraction(v) for v in ext]


def ext_point(sy, base, ext):
    fp = codec.full_point(sy, [float(v) for v in base])
    return fp + [float(v) for v in ext]


def compare_sens(defn, m, out, rng, npoints=2):
    """returns list of mismatch dicts {key, kind, detail}"""
    sy = defn.sy
    ns, np_ = sy.ns, sy.np
    n2 = out["n2"]
    mism = []
    if out.get("blocks") is False or out.get("layout") is False:
        mism.append({"key": "spec", "kind": "design", "detail": "the specification's own block assembly is not the derivative"})
        return mism
    calls = []
    # every function exists in a (state, t) and a (t, state) form (the latter is what scipy.integrate.ode is handed); one of
    # the two is drawn per function
    tf = [rng.random() < 0.5 for _ in range(6)]
    # the by_state option may be any truthy value (a numpy bool from a comparison, 1), not only the builtin constant
    BS = rng.choice([True, True, np.True_, 1])
    if np_ > 0:
        calls += [("augP", "varsP", (lambda z, t: m.ode_and_sensitivity_T(t, z)) if tf[0] else (lambda z, t: m.ode_and_sensitivity(z, t))),
                  ("augS", "varsS", (lambda z, t: m.ode_and_sensitivity_T(t, z, by_state=BS)) if tf[1]
                   else (lambda z, t: m.ode_and_sensitivity(z, t, by_state=BS))),
                  ("jacP", "varsP", (lambda z, t: m.ode_and_sensitivity_jacobian_T(t, z)) if tf[2]
                   else (lambda z, t: m.ode_and_sensitivity_jacobian(z, t))),
                  ("jacS", "varsS", (lambda z, t: m.ode_and_sensitivity_jacobian_T(t, z, by_state=BS)) if tf[3]
                   else (lambda z, t: m.ode_and_sensitivity_jacobian(z, t, by_state=BS)))]
    calls += [("augIV", "varsIV", (lambda z, t: m.ode_and_sensitivityIV_T(t, z)) if tf[4] else (lambda z, t: m.ode_and_sensitivityIV(z, t))),
              ("jacIV", "varsIV", (lambda z, t: m.ode_and_sensitivityIV_jacobian_T(t, z)) if tf[5]
               else (lambda z, t: m.ode_and_sensitivityIV_jacobian(z, t)))]
    rng.shuffle(calls)
    for _ in range(npoints):
        base, ext = sens_point(rng, sy, n2)
        pt = ext_point(sy, base, ext)
        t = float(base[ns])
        theta = [float(v) for v in base[ns + 1:ns + 1 + np_]]
        try:
            if np_ > 0:
                m.parameters = theta
        except Exception as ex:
            mism.append({"key": "parameters", "kind": "raised", "detail": repr(ex)[:200]})
            return mism
        for key, vkey, fn in calls:
            if any(x["key"] == key for x in mism):
                continue
            vars_ = out[vkey]
            z = np.array([pt[s - 1] for s in vars_], float)
            z_before = z.copy()
            try:
                got = np.asarray(fn(z, t), float)
                if not np.array_equal(z, z_before):
                    # an integrator that hands its own working vector to these functions would be corrupted
                    mism.append({"key": key, "kind": "input-modified", "detail": "the state vector passed in was changed in place"})
                    continue
            except Exception as ex:
                mism.append({"key": key, "kind": "raised", "detail": "".join(traceback.format_exception_only(type(ex), ex))[:300]})
                continue
            if key.startswith("aug"):
                polys = [codec.P(tm) for tm in out[key]]
                want_shape = (len(vars_),)
            else:
                # every arrangement's Jacobian is a re-indexing of the largest one (SensLayout.ArrangementsAreReindexings,
                # checked by TLC in MC_SensLayout): entry (r, c) = d rhs(variable r) / d variable c
                pos = {s_: q for q, s_ in enumerate(out["varsIV"])}
                polys = [codec.P(out["jacIV"][pos[sr]][pos[sc]]) for sr in vars_ for sc in vars_]
                want_shape = (len(vars_), len(vars_))
            if got.size != len(polys) or (got.ndim == 2 and got.shape != want_shape):
                mism.append({"key": key, "kind": "shape", "detail": "%s vs spec %s" % (got.shape, want_shape)})
                continue
            flat = got.reshape(-1)
            # (floor: an entry whose terms cancel comes back as a rounding residue of the size of the terms that cancelled)
            evs = [codec.peval(sy, p, pt, scale=True) for p in polys]
            floor = NUM_TOL * max([float(sc_) for _e, sc_ in evs] + [0.0])
            for idx, (g, (e, sc)) in enumerate(zip(flat, evs)):
                if not (abs(g - e) <= NUM_TOL * (sc + abs(g)) + floor + 1e-300):
                    where = idx if key.startswith("aug") else (idx // len(vars_), idx % len(vars_))
                    mism.append({"key": key, "kind": "value",
                                 "detail": "entry %s: pygom %r spec %r at z=%s t=%s theta=%s" %
                                           (where, float(g), float(e), z.tolist(), t, theta)})
                    break
    return mism


def _touch_sens(m, _k):
    """evaluate every sensitivity evaluator of a model under construction once (results discarded)"""
    ns, np_ = m.num_state, m.num_param
    try:
        if np_ > 0:
            m.parameters = [0.75] * np_
    except Exception:
        return
    zp = np.linspace(0.5, 1.5, ns + ns * np_)
    ziv = np.linspace(0.5, 1.5, ns + ns * np_ + ns * ns)
    for fn, z in ((lambda z: m.ode_and_sensitivity(z, 0.5), zp), (lambda z: m.ode_and_sensitivity(z, 0.5, by_state=True), zp),
                  (lambda z: m.ode_and_sensitivity_jacobian(z, 0.5), zp),
                  (lambda z: m.ode_and_sensitivity_jacobian(z, 0.5, by_state=True), zp),
                  (lambda z: m.ode_and_sensitivityIV(z, 0.5), ziv), (lambda z: m.ode_and_sensitivityIV_jacobian(z, 0.5), ziv)):
        try:
            fn(z.copy())
        except Exception:
            pass


def sens_chunk_worker(args):
    seed, ids, opts = args
    workdir = tlc.scratch_dir("pygom_os_")
    try:
        items, jobs = [], []
        for i in ids:
            rng = random.Random((seed << 20) + i)
            if i % 9 == 4:
                defn = noparam_defn(rng)
            else:
                ns = 1 if i % 9 == 7 else rng.randint(2, 4)
                np_ = rng.randint(1, 4)
                defn = gen.random_defn(rng, ns=ns, np_=np_, ne=rng.randint(1, 4), nonsymmetric=True,
                                       range_style=False)
            for p in defn.procs:
                if p["kind"] == "event":
                    p["route"] = rng.choice(build.valid_routes(p))
                p["how"] = rng.choice(["ctor", "ctor", "add"])
            rec = {"id": i, "defn": defn, "build_error": None}
            try:
                # every other model has its sensitivity evaluators used BETWEEN the add_* calls that complete it (the
                # values are thrown away): what is compared afterwards must belong to the completed definition
                m, events, odes = build.build(defn, rng=rng, style=rng.randrange(6),
                                              backend=("cython" if opts.get("cython_every") and i % opts["cython_every"] == 0 else "lambda"),
                                              on_step=(_touch_sens if i % 2 == 0 else None))
                rec.update(m=m, events=events, odes=odes)
            except Exception as ex:
                rec["build_error"] = "".join(traceback.format_exception_only(type(ex), ex))[:400]
                rec.update(m=None, events=defn.events(),
                           odes=[{"kind": "ode", "st": o["st"], "eqn": o["eqn"]} for o in defn.odes()])
            j = defn.to_json(i, want=WANT, events=rec["events"], odes=rec["odes"])
            j["ff"] = False
            jobs.append(j)
            items.append(rec)
        outs, tres = run_tlc_sens(jobs, workdir, "%d_%d" % (seed, ids[0]))
        results = []
        for rec, out in zip(items, outs):
            defn = rec["defn"]
            rng = random.Random((seed << 20) + rec["id"] + 7919)
            r = {"id": rec["id"], "describe": defn.describe(), "mism": [], "ns": defn.sy.ns, "np": defn.sy.np,
                 "ne": len(rec["events"]), "natoms": len(defn.sy.atoms), "blocks": out.get("blocks")}
            if rec["build_error"]:
                r["mism"].append({"key": "build", "kind": "raised", "detail": rec["build_error"]})
            else:
                r["mism"] += compare_sens(defn, rec["m"], out, rng)
            results.append(r)
        return {"results": results, "tlc_wall": tres.wall}
    finally:
        shutil.rmtree(workdir, ignore_errors=True)


# ---------------------------------------------------------------------------
# A: integrated sensitivities, validated row by row by TLC (TR_Integrator)

def _z0(sy, vars_, x0):
    ns, np_ = sy.ns, sy.np
    z = []
    for s in vars_:
        if s <= ns:
            z.append(float(x0[s - 1]))
        elif s <= sy.n + ns * np_:
            z.append(0.0)
        else:
            r = s - sy.n - ns * np_ - 1          # (j-1)*ns + (i-1)
            z.append(1.0 if r // ns == r % ns else 0.0)
    return np.array(z, float)


def fd_sensitivities(sy, ode_polys, theta, x0, grid, np_free):
    """central finite differences of REFERENCE solutions of the base ODE: dict (state i, param k) -> column over
    the grid, and (state i, initial value j) -> column"""
    out_p, out_z = {}, {}
    th = [float(v) for v in theta]
    x = [float(v) for v in x0]
    for k in range(np_free):
        h = 1e-5 * max(1.0, abs(th[k]))
        up = list(th); up[k] += h
        dn = list(th); dn[k] -= h
        a = refnum.solve(refnum.rhs_from_spec(sy, ode_polys, up), x, grid)
        b = refnum.solve(refnum.rhs_from_spec(sy, ode_polys, dn), x, grid)
        d = (a - b) / (2 * h)
        for i in range(sy.ns):
            out_p[(i, k)] = d[:, i]
    rhs = refnum.rhs_from_spec(sy, ode_polys, th)
    for j in range(sy.ns):
        h = 1e-5 * max(1.0, abs(x[j]))
        up = list(x); up[j] += h
        dn = list(x); dn[j] -= h
        d = (refnum.solve(rhs, up, grid) - refnum.solve(rhs, dn, grid)) / (2 * h)
        for i in range(sy.ns):
            out_z[(i, j)] = d[:, i]
    return out_p, out_z


def sens_int_worker(args):
    from harness import record_det as rd
    from checks import detcommon as dc
    from pygom.model import ode_utils
    seed, idx, opts = args
    rng = random.Random((seed << 16) + idx)
    res = {"idx": idx, "findings": [], "rejected": [], "accepted": 0, "calls": 0, "states": 0, "steps": 0,
           "configs": [], "maxerr": 0.0, "fd_maxerr": 0.0, "name": "random-%d" % idx}
    workdir = tlc.scratch_dir("tr_sens_")
    try:
        defn, theta, x0, tend = rd.random_det_model(rng)
        if defn.sy.ns * (defn.sy.np + defn.sy.ns) > 30:
            # keep the augmented dimension moderate
            defn, theta, x0, tend = rd.random_det_model(random.Random((seed << 16) + idx + 77777))
        sy = defn.sy
        res["describe"] = defn.describe()
        res["theta"] = [str(v) for v in theta]
        res["x0"] = [str(v) for v in x0]
        try:
            m, events, odes = build.build(defn, rng=rng, style=rng.randrange(6), backend="lambda")
        except Exception as ex:
            res["findings"].append({"what": "model construction raised", "detail": repr(ex)[:300]})
            return res
        j = defn.to_json(idx, want=["augP", "augS", "augIV"], events=events, odes=odes)
        j["ff"] = False
        outs, _ = run_tlc_sens([j], workdir, "i%d" % idx)
        out = outs[0]
        n2 = out["n2"]
        ode_polys = [codec.P(t) for t in out["ode"]]
        m.parameters = [float(v) for v in theta]
        grid = rd.time_grid(rng, tend)
        shape = "single-state" if sy.ns == 1 else "multi-state"
        arrangements = [("P", "augP", "varsP", m.ode_and_sensitivity_T, m.ode_and_sensitivity_jacobian_T, ()),
                        ("S", "augS", "varsS", m.ode_and_sensitivity_T, m.ode_and_sensitivity_jacobian_T, (True,)),
                        ("IV", "augIV", "varsIV", m.ode_and_sensitivityIV_T, m.ode_and_sensitivityIV_jacobian_T, ())]
        methods = [None, "lsoda", "vode", "ivode", "dopri5", "dop853"]
        traces, meta = [], []
        refs = {}
        for name, akey, vkey, func, jac, extra in arrangements:
            vars_ = out[vkey]
            polys = [codec.P(t) for t in out[akey]]
            rhs = refnum.rhs_aug_from_spec(sy, polys, vars_, n2, theta)
            z0 = _z0(sy, vars_, x0)
            try:
                ref = refnum.solve(rhs, z0, grid)
            except Exception as ex:
                res["machinery"] = "reference integration failed: %r" % ex
                return res
            refs[name] = (ref, vars_)
            for method in ([None] + rng.sample(methods[1:], 1 if opts.get("quick", True) else 3)):
                fo = rng.random() < 0.3
                io = rng.random() < 0.5
                rec = rd.StepRecorder()
                rec.install()
                err = None
                try:
                    o = ode_utils.integrateFuncJac(func, jac, z0.copy(), float(grid[0]), grid[1:], args=extra,
                                                   includeOrigin=io, full_output=fo, method=method)
                    sol = np.array(o[0] if fo else o, float)
                except Exception as ex:
                    err = repr(ex)[:300]
                finally:
                    rec.remove()
                res["calls"] += 1
                cfgname = "sens%s/%s/full=%s/origin=%s" % (name, method, fo, io)
                res["configs"].append(cfgname)
                if err:
                    res["findings"].append({"what": "integration of the augmented system raised", "detail": err,
                                            "config": cfgname, "shape": shape})
                    continue
                sol = sol.reshape(sol.shape[0], -1)
                tr = rd.to_call_trace("integrateFuncJac", method, fo, io, ref, sol, rec.snaps, False, 1e-6)
                traces.append(tr)
                meta.append({"config": cfgname, "grid": [float(g) for g in grid], "vars": vars_})
                if sol.shape[0] == ref.shape[0] - (0 if io else 1):
                    r2 = ref if io else ref[1:]
                    res["maxerr"] = max(res["maxerr"], float(np.max(np.abs(sol - r2)) / (1 + np.max(np.abs(ref)))))
        # the specification's variational solution against finite differences of reference solutions
        fdp, fdz = fd_sensitivities(sy, ode_polys, theta, x0, grid, sy.np)
        ref, vars_ = refs["IV"]
        scale = 1.0 + float(np.max(np.abs(ref)))
        for q, s in enumerate(vars_):
            if s <= sy.ns:
                continue
            r = s - sy.n - 1
            if r < sy.ns * sy.np:
                col = fdp[(r % sy.ns, r // sy.ns)]
            else:
                r -= sy.ns * sy.np
                col = fdz[(r % sy.ns, r // sy.ns)]
            e = float(np.max(np.abs(ref[:, q] - col))) / scale
            res["fd_maxerr"] = max(res["fd_maxerr"], e)
        if res["fd_maxerr"] > 1e-5:
            res["machinery"] = "the specification's variational solution disagrees with finite differences (%g)" % res["fd_maxerr"]
            return res
        if not traces:
            return res
        accepted, rejected, states = dc.validate_calls(traces, meta, workdir, shape)
        res["accepted"] += accepted
        res["rejected"] += rejected
        res["states"] += states
        res["steps"] += sum(len(t["events"]) for t in traces)
        res["sample"] = {"config": meta[0]["config"], "grid": meta[0]["grid"], "reference_first_rows": traces[0]["ref"][:2],
                         "scale": traces[0]["scale"], "tol": traces[0]["tol"]}
    finally:
        shutil.rmtree(workdir, ignore_errors=True)
    return res
