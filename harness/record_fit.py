"""Mode G for fit (C18): every configuration TLC enumerates from Fit.tla is run on a real loss object built on a
catalogue model; the outcome (ranks per coordinate among lower bound / upper bound / result, ranks of the start and
result costs RECOMPUTED from the reference trajectory of the specification's ODE, whether the generating parameters
came back) is handed to TLC (MC_Fit/TSpec) which evaluates FitPost."""
import math
import random
import shutil
import traceback

import numpy as np

from engine import catalogue, codec, refnum, tlc
from harness import build, replay_loss as rl  # noqa: F401

OBS = {"SIR_norm": ["R", "I"], "SIS": ["I"], "SEIR": ["I", "R"], "Lotka_Volterra": ["y", "x"], "FitzHugh": ["V"],
       "vanDerPol": ["y"]}
NPAR = {"SIR_norm": 2, "SIS": 2, "SEIR": 3, "Lotka_Volterra": 4, "FitzHugh": 3, "vanDerPol": 1}
# SIR_norm as documented starts with 1e-6 infectious: use a visible epidemic for fitting
X0 = {"SIR_norm": [0.95, 0.05, 0.0], "SIS": [0.9, 0.1], "SEIR": [0.9, 0.05, 0.05, 0.0], "Lotka_Volterra": [2.0, 1.0],
      "FitzHugh": [-1.0, 1.0], "vanDerPol": [2.0, 0.0]}
TEND = {"SIR_norm": 20.0, "SIS": 15.0, "SEIR": 20.0, "Lotka_Volterra": 4.0, "FitzHugh": 6.0, "vanDerPol": 5.0}


def spec_rhs(entry, workdir):
    from harness import oracle_model as om
    defn = entry["defn"]
    odes = [{"kind": "ode", "st": p["st"], "eqn": p["eqn"]} for p in defn.procs]
    outs, _ = om.run_tlc_oracle([defn.to_json(0, want=[], events=[], odes=odes)], workdir, "fit")
    return [codec.P(t) for t in outs[0]["ode"]]


def run_config(cfg, seed, cache):
    rng = random.Random(seed)
    res = {"cfg": cfg}
    name = cfg["model"]
    entry = next(e for e in catalogue.models() if e["name"] == name)
    sy = entry["defn"].sy
    if name not in cache:
        d = tlc.scratch_dir("fit_")
        try:
            cache[name] = spec_rhs(entry, d)
        finally:
            shutil.rmtree(d, ignore_errors=True)
    ode_polys = cache[name]
    theta_true = [float(v) for v in entry["theta"]]
    from pygom import common_models, SquareLoss, NormalLoss, PoissonLoss, GammaLoss, NegBinomLoss
    from pygom.model import ode_utils
    m = getattr(common_models, entry["factory"])()
    m._SC = ode_utils.compileCode(backend="lambda")
    m.parameters = theta_true
    x0 = X0[name]
    t0 = rng.choice([0.0, 0.0, 2.5, 20.0])          # the initial time of a loss object need not be zero
    times = t0 + np.linspace(0.0, TEND[name], 9)[1:]
    grid = np.concatenate([[t0], times])
    obs = OBS[name]
    oi = [sy.states.index(s) for s in obs]
    free = [k - 1 for k in cfg["free"]]
    tp = [sy.params[k] for k in free]

    def ref_traj(theta_free):
        th = list(theta_true)
        for k, v in zip(free, theta_free):
            th[k] = float(v)
        return refnum.solve(refnum.rhs_from_spec(sy, ode_polys, th), x0, grid)[1:][:, oi]
    gen_free = [theta_true[k] for k in free]
    clean = ref_traj(gen_free)
    cls = cfg["class"]
    if cls in ("Poisson", "Gamma", "NegBinom"):
        scale = 1.0
        if float(np.min(clean)) <= 0.05 * max(1.0, float(np.max(clean))) or name == "FitzHugh":
            res["skipped"] = "trajectory not positive enough for %s" % cls
            return res
        if cls in ("Poisson", "NegBinom"):
            scale = 40.0 / max(1e-9, float(np.max(clean)))     # counts: observe a scaled population? no -- keep the model's scale
    noise_free = cfg["start"] == "generating" or rng.random() < 0.3
    if cls in ("Poisson", "NegBinom"):
        noise_free = False
    if noise_free:
        y = clean.copy()
    else:
        y = clean * (1.0 + np.array([[0.05 * math.sin(2.3 * i + 1.1 * j) for j in range(len(oi))] for i in range(len(times))]))
        if cls in ("Poisson", "NegBinom"):
            y = np.maximum(np.round(y), 0.0)
            if float(np.max(y)) < 1.0:
                res["skipped"] = "count data would be all zero"
                return res
    spread = {"Normal": 0.5, "Gamma": 3.0, "NegBinom": 2.0}.get(cls)
    int_ub = False
    if cfg["box"] == "excluding":
        # the generating values lie below the box; upper bounds are whole numbers handed over as integers
        lb = [1.25 * g for g in gen_free]
        ub = [float(int(math.ceil(2.5 * g)) + 1) for g in gen_free]
        int_ub = True
    else:
        lo_f, hi_f = (0.7, 1.5) if cfg["box"] == "tight" else (0.3, 3.0)
        lb = [lo_f * g for g in gen_free]
        ub = [hi_f * g for g in gen_free]
    if cfg["start"] == "generating":
        start = list(gen_free)
    elif cfg["start"] == "lower":
        start = list(lb)
    elif cfg["start"] == "upper":
        start = list(ub)
    else:
        start = [l + rng.uniform(0.15, 0.85) * (u - l) for l, u in zip(lb, ub)]
    yy = y if y.shape[1] > 1 else y[:, 0]
    x0_arg = x0
    x0_buffer = None
    if rng.random() < 0.35:
        x0_buffer = np.array(x0, float)         # the caller's own array, re-used after the loss object was built
        x0_arg = x0_buffer
    # the caller's observation array may be re-used as well (written into after the loss object was built)
    # (a single column of observations: the constructor takes its own flat copy of it; a table of several columns is kept
    # by reference on the pinned tree, which no listed property forbids, so that case is not exercised)
    y_buffer = None
    if y.shape[1] == 1 and rng.random() < 0.5:
        y_buffer = np.array(yy, float, copy=True)
        yy = y_buffer
    args = (list(start), m, x0_arg, t0, times, yy, obs if len(obs) > 1 else obs[0])
    kw = dict(target_param=tp)
    # all parameters free, in model order: target_param may simply be left out
    if free == list(range(len(theta_true))) and rng.random() < 0.5:
        kw = {}
    # what happened to the shared model object before the fit (the non-free parameters end at their generating values)
    pre = rng.choice(["none", "none", "mixed-styles", "other-loss", "random-then-numbers"])
    if not kw:
        # the fit will then assign plain vectors: most interesting after name-keyed assignments by somebody else
        pre = rng.choice(["other-loss", "other-loss", "mixed-styles", "none"])
    res["pre_history"] = pre
    try:
        import sympy
        names = list(sy.params)
        if pre == "mixed-styles":
            # (the model was given a plain vector above) a symbol-keyed update of one parameter, then the vector again,
            # or name/value pairs in reverse order and a name-keyed update
            # (the one updated is a parameter the fit will NOT touch, when there is one: it must be back at its value)
            fixed = [k for k in range(len(names)) if k not in free]
            k0 = rng.choice(fixed) if fixed else free[0]
            m.parameters = {sympy.Symbol(names[k0]): 1.3 * theta_true[k0]}
            if rng.random() < 0.6:
                m.parameters = list(theta_true)
            else:
                m.parameters = [(nm, v) for nm, v in zip(names, theta_true)][::-1]
                m.parameters = {names[free[-1]]: 0.8 * theta_true[free[-1]]}
        elif pre == "other-loss":
            # another loss object on the same model, with a single target parameter, evaluated once
            other = SquareLoss([1.2 * theta_true[free[0]]], m, list(x0), t0, times, np.array(y[:, 0], float), obs[0],
                               target_param=[names[free[0]]])
            other.cost()
        elif pre == "random-then-numbers":
            # the model carried a random binding; the user then gives numbers to the parameters that will stay fixed
            import scipy.stats
            m.parameters = {nm: scipy.stats.uniform(loc=0.9 * v, scale=0.2 * v) for nm, v in zip(names, theta_true)}
            fixed = [k for k in range(len(names)) if k not in free]
            if fixed:
                m.parameters = {names[k]: theta_true[k] for k in fixed}
    except Exception as ex:
        res["raised"] = "pre-history raised: " + "".join(traceback.format_exception_only(type(ex), ex))[:300]
        return res
    try:
        if cls == "Square":
            obj = SquareLoss(*args, **kw)
        elif cls == "Normal":
            obj = NormalLoss(*args, sigma=spread, **kw)
        elif cls == "Poisson":
            obj = PoissonLoss(*args, **kw)
        elif cls == "Gamma":
            obj = GammaLoss(*args, shape=spread, **kw)
        else:
            obj = NegBinomLoss(*args, k=spread, **kw)
        form = rng.choice(["list", "array"])
        xs = list(start) if form == "list" else np.array(start)
        if x0_buffer is not None:
            x0_buffer *= 1.6
        if y_buffer is not None:
            y_buffer *= 1.7
        ub_arg = [int(u) for u in ub] if int_ub else (list(ub) if rng.random() < 0.5 else np.array(ub))
        out = obj.fit(xs, lb=(list(lb) if rng.random() < 0.5 else np.array(lb)), ub=ub_arg)
        result = [float(v) for v in np.atleast_1d(out)]
    except Exception as ex:
        res["raised"] = "".join(traceback.format_exception_only(type(ex), ex))[:300]
        return res
    if len(result) != len(start):
        res["raised"] = "fit returned %d values for %d free parameters" % (len(result), len(start))
        return res

    def ref_cost(theta_free):
        Y = ref_traj(theta_free)
        S = np.full(Y.shape, spread if spread is not None else 1.0)
        return float(np.sum(rl.ref_cost(cls, y, Y, 1.0, S)))
    try:
        cs, cr = ref_cost(start), ref_cost(result)
    except Exception as ex:
        res["machinery"] = "reference cost failed: %r" % ex
        return res
    # ranks per coordinate (exact float order)
    lbr, ubr, rr = [], [], []
    for l, u, r in zip(lb, ub, result):
        vals = sorted(set([l, u, r]))
        lbr.append(vals.index(l))
        ubr.append(vals.index(u))
        rr.append(vals.index(r))
    tolc = 1e-9 * (1.0 + abs(cs))
    cost_start_rank, cost_result_rank = (1, 1) if abs(cr - cs) <= tolc else ((1, 2) if cr > cs else (2, 1))
    at_gen = all(abs(r - g) <= 1e-6 * (1.0 + abs(g)) for r, g in zip(result, gen_free))
    res["outcome"] = {"lb": lbr, "ub": ubr, "result": rr, "costStart": cost_start_rank, "costResult": cost_result_rank,
                      "noiseFree": bool(noise_free), "atGenerating": bool(at_gen)}
    res["numbers"] = {"start": start, "lb": lb, "ub": ub, "result": result, "cost_start": cs, "cost_result": cr,
                      "generating": gen_free, "target_param": (tp if kw else None), "observed": obs, "pre_history": pre,
                      "caller_buffers": {"x0": x0_buffer is not None, "y": y_buffer is not None}}
    return res


def worker(args):
    cfgs, seed = args
    cache = {}
    out = []
    for i, c in enumerate(cfgs):
        try:
            out.append(run_config(c, seed * 10007 + i, cache))
        except Exception:
            out.append({"cfg": c, "machinery": traceback.format_exc()[-600:]})
    return out
