"""Wrappers installed from outside (no source hooks) when PYGOM_VERIF=1.

Every linearisation point the trace specifications talk about is a module-level or
instance-level callable resolved at call time, so it can be wrapped here:
  pygom.model.simulate.firstReaction / tauLeap    one record per attempt of SimulateOde._jump
  pygom.model.stochastic_simulation._newJumpTimes the per-event clocks of a first-reaction attempt
  numpy.random.exponential / poisson / uniform ... draws from the GLOBAL stream (and their arguments)
  numpy.random.RandomState                        creation of any other generator (a non-global source)
  SimulateOde._jump                               start / end of one run and its raw path
"""
import contextlib
import os

import numpy as np


POPULATION_CAP = 1e7
ATTEMPT_CAP = 60000


class Exploded(Exception):
    """the recorder stopped a run whose population passed POPULATION_CAP"""


class TooLong(Exception):
    """the recorder stopped a run after ATTEMPT_CAP attempts"""


from harness import build  # noqa: F401  (sets sys.path to the working tree)
import pygom.model.simulate as sim_mod
import pygom.model.stochastic_simulation as ss_mod
from pygom.model.simulate import SimulateOde


class Recorder:
    def __init__(self):
        self.runs = []          # one dict per _jump call
        self.cur = None         # current run
        self.att = None         # current attempt
        self.global_draws = []  # (name, args) of every draw from numpy's global stream
        self.foreign_rng = 0    # RandomState objects constructed while recording

    # -- numpy global stream ------------------------------------------------
    def _wrap_np(self, name):
        orig = getattr(np.random, name)

        def wrapped(*a, **k):
            val = orig(*a, **k)
            self.global_draws.append(name)
            if self.att is not None and name == "exponential":
                scale = k.get("scale", a[0] if a else 1.0)
                v = np.asarray(val, float).reshape(-1)
                self.att["exp"].append((float(scale), float(v[0]), int(v.size)))
            elif self.att is not None:
                self.att["other_draws"].append(name)
            return val
        return orig, wrapped


@contextlib.contextmanager
def recording():
    """install the wrappers; yields the Recorder"""
    if os.environ.get("PYGOM_VERIF", "1") != "1":
        raise RuntimeError("instrumentation is disabled (PYGOM_VERIF != 1)")
    rec = Recorder()
    saved = []

    def patch(obj, name, new):
        saved.append((obj, name, getattr(obj, name)))
        setattr(obj, name, new)

    for nm in ("exponential", "poisson", "uniform", "normal", "random", "random_sample", "rand", "choice",
               "gamma", "binomial"):
        orig, w = rec._wrap_np(nm)
        patch(np.random, nm, w)

    orig_rs = np.random.RandomState

    class CountingRandomState(orig_rs):
        def __init__(self, *a, **k):
            rec.foreign_rng += 1
            if rec.att is not None:
                rec.att["foreign_rng"] += 1
            super().__init__(*a, **k)
    patch(np.random, "RandomState", CountingRandomState)

    orig_njt = ss_mod._newJumpTimes

    def new_jump_times(rates, seed=None):
        tau = orig_njt(rates, seed=seed)
        if rec.att is not None:
            rec.att["clocks"] = [float(v) for v in np.asarray(tau, float).reshape(-1)]
            rec.att["clock_rates"] = [float(r) for r in np.asarray(rates, float).reshape(-1)]
        return tau
    patch(ss_mod, "_newJumpTimes", new_jump_times)

    orig_fr, orig_tl = sim_mod.firstReaction, sim_mod.tauLeap

    def begin(kind, x, t):
        # a generated model whose population has left every bound (outside the bounded-rate quantifier), or a run of
        # absurd length, is stopped HERE, deterministically: a timer alone is not enough (an exception raised by a signal
        # handler inside a finalizer is swallowed by the interpreter, and the simulation then runs until memory is gone)
        if rec.cur is not None:
            if float(np.max(np.abs(np.asarray(x, float)))) > POPULATION_CAP:
                raise Exploded("population beyond %g" % POPULATION_CAP)
            if len(rec.cur["attempts"]) >= ATTEMPT_CAP:
                raise TooLong("more than %d attempts" % ATTEMPT_CAP)
        rec.att = {"kind": kind, "xb": np.array(x, float).copy(), "tb": float(t), "exp": [], "other_draws": [],
                   "foreign_rng": 0, "clocks": None, "clock_rates": None}

    def end(result, exc=None):
        a = rec.att
        rec.att = None
        a["raised"] = repr(exc)[:200] if exc is not None else None
        a["result"] = result
        if rec.cur is not None:
            rec.cur["attempts"].append(a)

    def first_reaction(x, x_lims, t, *a, **k):
        begin("FR", x, t)
        try:
            res = orig_fr(x, x_lims, t, *a, **k)
        except Exception as ex:
            end(None, ex)
            raise
        end(res)
        return res

    def tau_leap(x, x_lims, t, *a, **k):
        begin("TL", x, t)
        try:
            res = orig_tl(x, x_lims, t, *a, **k)
        except Exception as ex:
            end(None, ex)
            raise
        end(res)
        return res
    patch(sim_mod, "firstReaction", first_reaction)
    patch(sim_mod, "tauLeap", tau_leap)

    orig_jump = SimulateOde._jump

    def jump(self, finalT, exact=False, full_output=True, seed=None):
        run = {"finalT": float(np.asarray(finalT, float).reshape(-1)[0]), "exact": bool(exact), "seed_arg": seed,
               "x0": np.array(self._x0, float).copy(), "t0": float(self._t0), "attempts": [], "raw": None,
               "raised": None}
        rec.cur = run
        rec.runs.append(run)
        try:
            out = orig_jump(self, finalT, exact=exact, full_output=full_output, seed=seed)
        except Exception as ex:
            run["raised"] = repr(ex)[:300]
            rec.cur = None
            raise
        rec.cur = None
        run["raw"] = [np.array(o, float) if len(np.shape(o)) else o for o in out]
        return out
    patch(SimulateOde, "_jump", jump)
    try:
        yield rec
    finally:
        for obj, name, old in reversed(saved):
            setattr(obj, name, old)
