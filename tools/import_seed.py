"""import_seed.py <agent out dir> <k> <seed id> <property> <needs> -- <check ids that catch it> -- <ran>"""
import json, os, shutil, sys
src, k, sid, prop, needs = sys.argv[1:6]
rest = sys.argv[6:]
i = rest.index("--"); rest = rest[i + 1:]
j = rest.index("--")
caught, ran = rest[:j], " ".join(rest[j + 1:])
d = os.path.join("/verif/seeded", sid)
os.makedirs(d, exist_ok=True)
shutil.copy(os.path.join(src, k, "patch.diff"), os.path.join(d, "patch.diff"))
shutil.copy(os.path.join(src, k, "demo.py"), os.path.join(d, "demo.py"))
if os.path.exists(os.path.join(src, k, "notes.md")):
    shutil.copy(os.path.join(src, k, "notes.md"), os.path.join(d, "notes.md"))
json.dump({"id": sid, "property": prop, "needs_to_manifest": needs, "caught_by": caught, "what_was_run": ran},
          open(os.path.join(d, "meta.json"), "w"), indent=1)
print("imported", sid)
