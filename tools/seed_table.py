"""print the markdown table of seeded changes from seeded/*/meta.json"""
import glob, json, os
rows = []
for f in sorted(glob.glob("/verif/seeded/*/meta.json")):
    m = json.load(open(f))
    rows.append((m["property"], m["id"], m["needs_to_manifest"], ", ".join(m["caught_by"]) or "-"))
rows.sort()
print("| property | seeded change | needs in order to manifest | caught by |")
print("|---|---|---|---|")
for r in rows:
    print("| %s | `%s` | %s | %s |" % r)
print()
print("%d seeded changes" % len(rows))
