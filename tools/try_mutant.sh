#!/bin/sh
# try_mutant.sh <patch.diff> <ID> [<ID> ...] : apply to /repo, run quick checks, always revert
patch="$1"; shift
git -C /repo apply --whitespace=nowarn "$patch" || { echo "APPLY FAILED"; exit 2; }
for id in "$@"; do
  /verif/check "$id" --tier quick > /tmp/mut_$id.log 2>&1
  rc=$?
  echo "$id rc=$rc $(grep -c '^VIOLATION' /tmp/mut_$id.log) violations; $(grep -m1 -A1 '^VIOLATION' /tmp/mut_$id.log | tail -1 | cut -c1-200)"
done
git -C /repo checkout -- . 
git -C /repo status --short | grep -v '_tau_leap' 
