#!/bin/sh
# mk_worktree.sh <name> : scratch git worktree of /repo HEAD under /tmp/wt/<name> (with the built extension copied in)
set -e
name="$1"
mkdir -p /tmp/wt
git -C /repo worktree add --detach "/tmp/wt/$name" HEAD >/dev/null 2>&1
cp /repo/src/pygom/model/_tau_leap.cpython-312-x86_64-linux-gnu.so "/tmp/wt/$name/src/pygom/model/"
mkdir -p "/tmp/wt/${name}_out"
echo "/tmp/wt/$name"
