"""vet_mutant.py <worktree> <agent out dir> <k> <checks comma-separated> [test files ...]

Confirms a seeded change independently of the agent that wrote it, inside the scratch worktree:
  1. clean tree: demo.py exits 0           2. patch applied: demo.py exits non-zero
  3. the given existing test files pass with the patch
  4. the given checks (quick tier) run against the patched worktree (PYGOM_REPO, VERIF_OUT redirected)
and prints one JSON line.  The worktree is left clean."""
import json, os, subprocess, sys, time
wt, out, k, checks = sys.argv[1:5]
tests = sys.argv[5:]
d = os.path.join(out, k)
env = dict(os.environ, PYTHONPATH=os.path.join(wt, "src"), PYTHONHASHSEED="0")
def sh(cmd, **kw):
    return subprocess.run(cmd, shell=True, stdout=subprocess.PIPE, stderr=subprocess.STDOUT, text=True, **kw)
res = {"k": k, "dir": d}
sh("git -C %s checkout -- ." % wt)
r = sh("/venv/bin/python %s/demo.py" % d, env=env, cwd=d, timeout=1800)
res["demo_clean_rc"] = r.returncode
a = sh("git -C %s apply --whitespace=nowarn %s/patch.diff" % (wt, d))
res["apply_rc"] = a.returncode
res["files"] = sh("git -C %s diff --stat" % wt).stdout.strip().splitlines()[:-1]
r = sh("/venv/bin/python %s/demo.py" % d, env=env, cwd=d, timeout=1800)
res["demo_patched_rc"] = r.returncode
res["demo_patched_tail"] = r.stdout.strip().splitlines()[-1:] 
if tests:
    t = sh("/venv/bin/python -m pytest -q -p no:cacheprovider --timeout=900 %s" % " ".join("tests/" + x for x in tests), env=env, cwd=wt, timeout=3600)
    res["tests_rc"] = t.returncode
    res["tests_tail"] = t.stdout.strip().splitlines()[-1:]
res["checks"] = {}
for c in [c for c in checks.split(",") if c]:
    od = "/tmp/wt/vout_%s_%s_%s" % (os.path.basename(wt), k, c)
    e2 = dict(os.environ, PYGOM_REPO=wt, VERIF_OUT=od)
    e2.pop("PYGOM_SRC", None)
    t0 = time.time()
    r = sh("/verif/check %s --tier quick" % c, env=e2, timeout=3600)
    lines = r.stdout.splitlines()
    viol = [l for l in lines if l.startswith("VIOLATION")]
    first = ""
    for i, l in enumerate(lines):
        if l.startswith("VIOLATION"):
            first = (lines[i + 1] if i + 1 < len(lines) else "")[:300]
            break
    res["checks"][c] = {"rc": r.returncode, "violations": len(viol), "first": first, "wall": round(time.time() - t0),
                        "tail": lines[-1:] }
    sh("rm -rf %s" % od)
sh("git -C %s checkout -- ." % wt)
print(json.dumps(res))
