"""print the prompt for a mutation sub-agent: python3 tools/agent_prompt.py C01 m01 [count]"""
import json, sys
pid, name = sys.argv[1], sys.argv[2]
count = sys.argv[3] if len(sys.argv) > 3 else "3"
props = {json.loads(l)["id"]: json.loads(l) for l in open("/verif/properties.jsonl")}
p = props[pid]
print(f"""You are helping test a verification framework by seeding realistic bugs. Work ONLY inside the scratch git worktree /tmp/wt/{name} (a checkout of the Python library PyGOM: compartmental ODE models built symbolically with sympy, integrated with scipy, Gillespie/tau-leap simulation, parameter fitting). Do NOT read or touch /verif or /repo. Write your results under /tmp/wt/{name}_out/.

Python: use `/venv/bin/python` with `PYTHONPATH=/tmp/wt/{name}/src` (check with `python -c "import pygom; print(pygom.__file__)"` that it imports from the worktree; import takes ~10 s). Many source files have CRLF line endings: preserve them (edit with python `open(p, newline='')`), so that `git diff` only shows the lines you changed.

The semantic property under test:

  id: {pid}
  title: {p['title']}
  statement: {p['statement']}
  quantifier: {p['quantifier']['text']}
  anchored in: {', '.join(p['anchors']['files'])}

Task: produce {count} DIFFERENT small source changes (each independent, each starting from the clean worktree HEAD) to the library under src/pygom that BREAK this property while the code still imports/compiles and the existing test-suite still passes. Prefer changes that look like plausible maintenance slips (an off-by-one, a wrong index or sign on one branch, a dropped factor, a swapped argument, a missing invalidation, two sites that each look fine alone) and that need something SPECIFIC to manifest: an unusual-but-legal input or model shape, a multi-step sequence of operations, a particular option combination — not ones that any ordinary use of the library (e.g. a plain SIR model through the most common API route) would expose at once, and not ones that make an existing test fail.

For each change k = 1..{count}:
 1. make the edit in the worktree; save `git -C /tmp/wt/{name} diff > /tmp/wt/{name}_out/<k>/patch.diff`
 2. write /tmp/wt/{name}_out/<k>/demo.py — a small self-contained program (uses PYTHONPATH to pick the tree) that exits 0 on the clean tree and exits non-zero (assertion failure) with your change applied, demonstrating the property violation through the public API
 3. run the relevant existing tests with the change applied: `cd /tmp/wt/{name} && PYTHONPATH=/tmp/wt/{name}/src /venv/bin/python -m pytest -q -p no:cacheprovider --timeout=900 tests/<relevant files>` (the stable tests are: test_adding_to_parameterlist, test_compile_canary, test_epijson::test_read_epijson, test_input_symbols, test_loss_types (the *Failures* tests and test_all_Loss_functions_produce_different_costs), test_model_existing, test_model_vector, test_ode_decomposition, test_ode_func, test_ode_simulate_jump, test_ode_simulate_param, test_package_basics, test_sir_estimate::test_single_state_func; other tests in the repo already fail on the clean tree and do not count). Some tests are slow (a few minutes); run at least the files that touch the code you changed and say which you ran.
 4. verify demo.py passes on the clean tree (save the diff, `git -C /tmp/wt/{name} checkout -- .`, run, then `git apply` the saved diff again; NEVER use `git stash` — the stash is shared between worktrees) and fails with the change
 5. write /tmp/wt/{name}_out/<k>/notes.md: what you changed, why it breaks the property, what it needs in order to manifest, which tests you ran and their result
 6. restore the worktree to clean (`git -C /tmp/wt/{name} checkout -- .`) before the next change

Finish with the worktree clean. In your final message list, for each k, one line: file changed, what is needed to trigger it, and whether demo + tests behaved as required. Keep changes minimal (1-5 lines each).""")
