#!/bin/sh
# offline setup: byte-compile the harness and parse every specification module with SANY
cd "$(dirname "$0")" || exit 1
/venv/bin/python -m compileall -q engine harness checks >/dev/null || exit 1
cd spec || exit 1
rc=0
for f in *.tla; do
  out=$(java -cp /opt/veriftools/tla/tla2tools.jar:/opt/veriftools/tla/CommunityModules-deps.jar tla2sany.SANY "$f" 2>&1)
  if echo "$out" | grep -q -e "Semantic errors" -e "Parse Error" -e "Fatal" -e "\*\*\* Errors"; then
    echo "SANY failed on $f"; echo "$out" | tail -20; rc=1
  fi
done
exit $rc
