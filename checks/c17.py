"""C17 -- ABC keeps only particles inside the prior support and under the tolerance.

E  MC_Abc (rejection / tolerance list / quantile schedule; N = 2, 3 generations, 4 cost ranks, get + continue):
   AcceptedUnderTol, TolerancesNeverIncrease, PosteriorComplete; negative control: acceptance relaxed to cost <= tol.
A  sessions on real loss objects (SIR and Lotka-Volterra, square / normal loss, one or several observed states in any
   order, uniform / gamma / normal priors, log-scale parameters, parameter lists ordered unlike the model, an initial
   value as free variable, nearest-neighbour kernels, get + continue) recorded through a wrapper on
   ABC._perform_generation; TR_Abc accepts a session only if every particle of every generation is a trial the
   SPECIFICATION accepts (prior positive by the specification's prior table, cost rank strictly below the tolerance
   rank), its weight is positive and finite, its stored distance equals the cost recomputed by a FRESH loss object
   at the back-transformed particle, the posterior after the call is the last generation, and -- with a quantile --
   tolerances never increase.
"""
import json
import os
import re
import shutil

from checks import modelcommon as mc
from engine import tlc, report

AT = re.compile(r'<<"AT", (\d+), (\d+)>>')


def session_worker(args):
    import warnings
    warnings.filterwarnings("ignore")
    import logging
    logging.disable(logging.CRITICAL)
    from harness import record_abc as ra
    seeds = args
    out = []
    for sd in seeds:
        r = {"seed": sd}
        import signal

        class _Slow(BaseException):
            pass

        def _alarm(signum, frame):
            raise _Slow()
        signal.signal(signal.SIGALRM, _alarm)
        signal.setitimer(signal.ITIMER_REAL, 150, 5)     # repeating, in case the first exception is swallowed by a finalizer
        try:
            s = ra.perform_session(sd)
            signal.setitimer(signal.ITIMER_REAL, 0)
        except _Slow:
            signal.setitimer(signal.ITIMER_REAL, 0)
            r["slow"] = True          # acceptance too rare to finish in time: nothing to judge
            out.append(r)
            continue
        except Exception:
            signal.setitimer(signal.ITIMER_REAL, 0)
            import traceback
            r["machinery"] = traceback.format_exc()[-600:]
            out.append(r)
            continue
        cfg = s["cfg"]
        r["cfg"] = {k: cfg.get(k) for k in ("which", "obs", "loss_type", "mode", "N", "G", "q", "M", "cont", "cont_tighter", "restart", "sigma", "constraint", "x0")}
        r["cfg"]["priors"] = [(p["name"], p["dist"], list(p["args"]), p["logscale"], p["is_state"]) for p in cfg["table"]]
        if s["error"]:
            r["error"] = s["error"]
            out.append(r)
            continue
        try:
            tr, det = ra.to_trace(s)
        except Exception:
            import traceback
            r["machinery"] = traceback.format_exc()[-600:]
            out.append(r)
            continue
        d = tlc.scratch_dir("tr_abc_")
        try:
            path = os.path.join(d, "t.json")
            with open(path, "w") as f:
                json.dump(tr, f)
            try:
                res = tlc.run("TR_Abc", cfg="TR_Abc", workers=1, env={"TRACE_FILE": path}, timeout=600, deadlock=False)
            except tlc.TLCError as ex:
                r["machinery"] = str(ex)[-600:]
                out.append(r)
                continue
        finally:
            shutil.rmtree(d, ignore_errors=True)
        m = [(int(a), int(b)) for a, b in AT.findall(res.out)]
        reached = max((a for a, _ in m), default=0)
        need = len(tr["events"]) + 1
        r.update(events=len(tr["events"]), states=res.distinct or 0, accepted=(reached >= need and not res.invariant_violated),
                 invariant=res.invariant_violated, generations=sum(1 for e in tr["events"] if e["ev"] == "EndGen"),
                 particles=sum(1 for e in tr["events"] if e["ev"] == "Accept"))
        if not r["accepted"]:
            k = min(max(reached, 1), len(tr["events"])) - 1
            ev = tr["events"][k]
            r["rejected_at"] = {"index": reached, "event": {kk: vv for kk, vv in ev.items() if kk != "parts"}, "detail": det[k]}
            if ev["ev"] == "Final":
                bad = [i for i, p in enumerate(ev["parts"]) if not (p["prior"] and p["w"] == "ok" and p["recomputed"] == "ok")]
                r["rejected_at"]["bad_particles"] = [(i, ev["parts"][i], det[k]["parts"][i]) for i in bad[:3]]
        out.append(r)
    return out


def clause(r):
    ra = r.get("rejected_at", {})
    ev = ra.get("event", {})
    if r.get("invariant"):
        return "invariant:" + r["invariant"]
    if ev.get("ev") == "Accept":
        if not ev.get("prior"):
            return "particle outside the prior support"
        if ev.get("w") != "ok":
            return "weight not positive and finite"
        if ev.get("recomputed") != "ok":
            return "stored distance is not the recomputed cost"
        return "accepted particle is not under the tolerance"
    if ev.get("ev") == "EndGen":
        return "tolerance schedule"
    if ev.get("ev") == "Final":
        return "posterior after the call is not the last generation / not under the final tolerance"
    return "session shape"


def run(rep, tier, seed):
    quick = tier == "quick"
    for mode in ("quantile", "list", "rejection"):
        res = tlc.run("MC_Abc", cfg="MC_Abc_" + mode, workers=4, coverage=True, timeout=900)
        if res.invariant_violated:
            raise report.Machinery("Abc.tla violates %s (design error)" % res.invariant_violated)
        rep.add_tlc("MC_Abc(%s)" % mode, res, exhaustive=True)
        for act in ("Start", "Trial", "EndGeneration", "Continue", "Restart"):
            if res.coverage.get(act, [0, 0])[1] == 0:
                raise report.Machinery("action %s never taken in MC_Abc (%s)" % (act, mode))
    neg = tlc.run("MC_Abc", cfg="MC_Abc_neg", workers=1, timeout=300)
    if neg.invariant_violated != "AcceptedUnderTol":
        raise report.Machinery("negative control: relaxed acceptance must violate AcceptedUnderTol")
    rep.cov["negative_control"] = "acceptance cost <= tol -> AcceptedUnderTol violated"
    n = 32 if quick else 480
    seeds = [(seed % 100000) * 1000 + i for i in range(n)]
    chunks = [seeds[i::mc.NPROC] for i in range(mc.NPROC)]
    results = [r for ch in mc.pool_map(session_worker, [c for c in chunks if c]) for r in ch]
    acc = 0
    modes, priors = {}, {}
    for r in results:
        if r.get("machinery"):
            raise report.Machinery("session %s: %s" % (r["seed"], r["machinery"]))
        if r.get("slow"):
            rep.cov["discarded_slow"] = rep.cov.get("discarded_slow", 0) + 1
            continue
        cfg = r["cfg"]
        if r.get("error"):
            if r["error"]["kind"] == "linalg":
                rep.cov["discarded_linalg"] = rep.cov.get("discarded_linalg", 0) + 1
                continue
            rep.violation("ABC run raised: %s" % r["error"]["detail"][-300:], {"seed": r["seed"], "config": cfg},
                          key="python|raised|%s" % cfg["mode"])
            continue
        rep.count(r["particles"])
        rep.cov["states"] += r["states"]
        rep.cov["transitions"] += r["events"]
        modes[cfg["mode"] + ("+continue" if cfg["cont"] else "") + ("+MNN" if cfg["M"] else "")] = \
            modes.get(cfg["mode"] + ("+continue" if cfg["cont"] else "") + ("+MNN" if cfg["M"] else ""), 0) + 1
        for p in cfg["priors"]:
            k = p[1] + ("/log" if p[3] else "") + ("/state" if p[4] else "")
            priors[k] = priors.get(k, 0) + 1
        if r["accepted"]:
            acc += 1
            rep.distinct(r["seed"])
            rep.sample({"seed": r["seed"], "config": cfg, "generations": r["generations"], "particles": r["particles"]}, limit=2)
        else:
            what = clause(r)
            rep.violation("ABC session rejected by TR_Abc (%s): %s" % (what, json.dumps(r["rejected_at"], default=str)[:500]),
                          {"seed": r["seed"], "config": cfg, "rejection": r["rejected_at"]}, key="tlc|%s|%s" % (what, cfg["mode"]))
    rep.traces(acc)
    rep.cov["sessions_by_mode"] = modes
    rep.cov["priors_used"] = priors
    rep.assume("costs and tolerances are compared through their dense ranks (exact order); recomputed cost must agree with the "
               "stored distance to 1e-9 relative")
    rep.assume("runs that stop with numpy LinAlgError (documented limitation for small N) are discarded, not judged")
    rep.rule("%d sessions, N in 10..40, 1..4 generations (+2 when continued); every accepted particle of every generation is one "
             "trace event" % n)
    if acc == 0 and not rep.violations:
        raise report.Machinery("no session was accepted (vacuous)")


def replay(path):
    with open(path) as f:
        d = json.load(f)
    out = session_worker([d["replay"]["seed"]])
    r = out[0]
    if r.get("accepted"):
        print("session accepted on replay")
        return 0
    print("VIOLATION property=C17 replay=%s" % path)
    print("  %s" % json.dumps(r.get("rejected_at", r.get("error")), default=str)[:500])
    return 1


def selftest(seed):
    from checks import selftest as st
    return st.run([st.abc])
