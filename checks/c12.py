"""C12 -- equivalent ways of specifying a model give the same model.

E  MC_ModelDef: InvRouteIndependent / InvVRRouteIndependent over every route assignment and order.
G  every live state TLC visited (all routes: Event, Transition-as-event, Event whose transition carries
   the rate, legacy lists, births by origin / destination, explicit ODE terms; constructor vs add_*)
   is performed on a real SimulateOde and compared with the state's expected ODE, V, R.
O  random process sets at full size, several random route/order/declaration variants each, all compared
   with the ODE the specification derives for the process set.
"""
from checks import modelcommon as mc
from harness import oracle_model as om


def key_of(m, header=None, hist=None):
    """classify a mismatch (for known_findings.json)"""
    return m["key"] + ":" + m["kind"]


def run(rep, tier, seed):
    quick = tier == "quick"
    rep.assume("sympy is used only to evaluate PyGOM's symbolic output at rational points (30 digits)")
    maxhist = 2 if quick else 3
    mc.run_mc_modeldef(rep, maxhist, dump=False)
    _, header, states = mc.run_mc_modeldef(rep, maxhist, dump=True)
    if not quick:
        states = states[::2]
    res = mc.replay_states(header, states, ["ode", "V", "R"], seed)
    rep.traces(len(res))
    routes_seen = set()
    for r in res:
        rep.count()
        rep.distinct(("G", str(r["hist"])))
        for h in r["hist"]:
            routes_seen.add((h["route"], h["how"]))
        if r["mism"]:
            m = r["mism"][0]
            rep.violation("replayed TLC history gives a different model: %s" % m,
                          {"history": r["hist"], "menu": header["menu"], "mismatches": r["mism"]}, key=key_of(m))
    rep.sample({"mode": "G", "history": states[-1]["hist"], "expected_ode": states[-1]["ode"]})
    n = 60 if quick else 1200
    jobs = [(seed + 12, list(range(i, min(i + 6, n))), {"variants": 4 if quick else 5}) for i in range(0, n, 6)]
    out = mc.pool_map(om.variants_worker, jobs)
    nvar = 0
    for chunk in out:
        for r in chunk["results"]:
            rep.count()
            nvar += len(r["variants"])
            rep.distinct(("O", r["id"]))
            if r["mism"]:
                m = r["mism"][0]
                rep.violation("variant of a process set gives a different model: %s" % m,
                              {"definition": r["describe"], "mismatches": r["mism"][:6]}, key=key_of(m))
    rep.traces(nvar)
    rep.sample({"mode": "O", "definition": out[0]["results"][0]["describe"], "variants": out[0]["results"][0]["variants"][:2]})
    rep.rule("G: every live state of MC_ModelDef (MaxHist=%d)%s over all routes; O: %d random process sets x "
             "route/order/declaration variants; distinct by history / (definition, variant)" %
             (maxhist, "" if quick else " (every second)", n))
    rep.cov["routes_exercised"] = sorted("%s/%s" % x for x in routes_seen)
    rep.cov["variants_built"] = nvar
