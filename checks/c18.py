"""C18 -- fit stays inside the box and never returns something worse than its start.

E  Fit.tla: the bounds reach the optimiser as one (lower, upper) pair per variable -- TLC checks that the Fortran-order
   packing the implementation uses yields exactly those pairs (and the C-order packing does not) -- and TLC enumerates the
   configuration matrix: 6 catalogue models x 5 loss classes x every ordered selection of <= 2 free parameters x start
   (interior / on lower / on upper bound / at the generating values) x box (tight / wide): 1720 configurations.
G  each configuration (quick: a stratified sample) is run on a real loss object; the outcome goes back to TLC, which
   evaluates FitPost: result inside the box coordinate by coordinate (exact float order), reference cost of the result
   <= reference cost of the start, and the generating parameters returned when started there on noise-free data.
The optimiser is an environment (any outcome is possible in the specification): level claimed is exploration.
"""
import json
import os
import random
import re
import shutil

from checks import modelcommon as mc
from engine import tlc, report

LEVEL = "exploration"
AT = re.compile(r'<<"AT", (\d+), (\d+), (\d+)>>')


def run(rep, tier, seed):
    quick = tier == "quick"
    res = tlc.run("MC_Fit", cfg="MC_Fit", workers=1, timeout=600, deadlock=False)
    cfgs = [p for p in res.printed() if "model" in p]
    if not cfgs:
        raise report.Machinery("MC_Fit enumerated no configuration")
    rep.add_tlc("MC_Fit (configuration matrix; BoundsLaw assumed and checked)", res, exhaustive=True)
    rng = random.Random(seed)
    if quick:
        # stratified: every (model, class, start) combination three times
        by = {}
        for c in cfgs:
            by.setdefault((c["model"], c["class"], c["start"]), []).append(c)
        pick = [c for v in by.values() for c in rng.sample(v, min(3, len(v)))]
        rng.shuffle(pick)
        cfgs_run = pick
    else:
        cfgs_run = cfgs
    chunks = [cfgs_run[i::mc.NPROC] for i in range(mc.NPROC)]
    from harness import record_fit as rf
    results = [r for ch in mc.pool_map(rf.worker, [(c, seed % 100000 + i) for i, c in enumerate(chunks) if c]) for r in ch]
    outcomes, keep = [], []
    for r in results:
        if r.get("machinery"):
            raise report.Machinery("fit harness: %s" % r["machinery"])
        if r.get("skipped"):
            rep.cov["skipped"] = rep.cov.get("skipped", 0) + 1
            continue
        rep.count()
        if r.get("raised"):
            rep.violation("fit raised: %s" % r["raised"], {"config": r["cfg"]},
                          key="python|raised|%s|%s" % (r["cfg"]["class"], r["cfg"]["start"]))
            continue
        outcomes.append({"cfg": r["cfg"], "outcome": r["outcome"]})
        keep.append(r)
    d = tlc.scratch_dir("tr_fit_")
    try:
        path = os.path.join(d, "t.json")
        with open(path, "w") as f:
            json.dump({"outcomes": outcomes}, f)
        tres = tlc.run("MC_Fit", cfg="TR_Fit", workers=1, env={"TRACE_FILE": path}, timeout=1200, deadlock=False)
    finally:
        shutil.rmtree(d, ignore_errors=True)
    done = {}
    for mt in AT.finditer(tres.out):
        tid, l = int(mt.group(1)), int(mt.group(2))
        done[tid] = max(done.get(tid, 0), l)
    rep.cov["states"] += tres.distinct or 0
    acc = 0
    hist = {}
    for tid, r in enumerate(keep, start=1):
        c = r["cfg"]
        hist[c["model"]] = hist.get(c["model"], 0) + 1
        if done.get(tid, 0) >= 2:
            acc += 1
            rep.distinct(json.dumps(c, sort_keys=True))
            continue
        o, nb = r["outcome"], r["numbers"]
        if any(not (l <= x <= u) for l, x, u in zip(o["lb"], o["result"], o["ub"])):
            what = "result outside the box"
        elif o["costResult"] > o["costStart"]:
            what = "result is worse than the start"
        else:
            what = "generating parameters not returned"
        rep.violation("fit outcome rejected by FitPost (%s): %s" % (what, json.dumps(nb)[:400]), {"config": c, "numbers": nb, "outcome": o},
                      key="tlc|%s|%s|%s" % (what, c["class"], c["start"]))
    rep.traces(acc)
    rep.cov["configurations_enumerated"] = len(cfgs)
    rep.cov["configurations_run"] = len(keep)
    rep.cov["by_model"] = hist
    if keep:
        rep.sample({"config": keep[0]["cfg"], "numbers": keep[0]["numbers"]})
    rep.assume("the optimiser is not modelled (environment); costs of start and result are recomputed from the reference trajectory "
               "(DOP853 on the specification's transcription of the catalogue model) with reference kernels; equal within 1e-9 relative "
               "counts as equal")
    rep.assume("Poisson / Gamma / NegBinom configurations whose clean trajectory is not safely positive are skipped")
    rep.rule("%d of %d enumerated configurations run (quick: three per model x class x start)" % (len(keep), len(cfgs)))
    if acc == 0 and not rep.violations:
        raise report.Machinery("no configuration was accepted (vacuous)")


def selftest(seed):
    from checks import selftest as st
    return st.run([st.fit])
