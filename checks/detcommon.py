"""Shared driver for the deterministic solving layer (C02, deterministic clause of C10)."""
import json
import os
import random
import re
import shutil
from fractions import Fraction

import numpy as np

from engine import tlc, report, codec, refnum, catalogue

AT = re.compile(r'<<"AT", (\d+), (\d+), (\d+)>>')
TR_CFG = """SPECIFICATION TraceSpec
CONSTANTS
  Methods = {}
  CopyRows = TRUE
  NT <- TraceNT
INVARIANT Progress
PROPERTY RowsImmutable
CHECK_DEADLOCK FALSE
"""


def validate_calls(traces, meta, workdir, shape):
    """one TLC run (TR_Integrator) over the recorded calls of one model: (accepted, rejected[], states)"""
    path = os.path.join(workdir, "trace.json")
    with open(path, "w") as f:
        json.dump({"calls": traces}, f)
    cfg = os.path.join(workdir, "tr.cfg")
    with open(cfg, "w") as f:
        f.write(TR_CFG)
    try:
        tres = tlc.run("TR_Integrator", cfg=cfg, workers=1, env={"TRACE_FILE": path}, timeout=1200)
    except tlc.TLCError as ex:
        raise report.Machinery(str(ex))
    prog = {}
    for mt in AT.finditer(tres.out):
        tid, l, need = int(mt.group(1)), int(mt.group(2)), int(mt.group(3))
        cur = prog.get(tid, (0, need))
        prog[tid] = (max(cur[0], l), need)
    accepted, rejected = 0, []
    if tres.invariant_violated:
        rejected.append({"label": "invariant:" + tres.invariant_violated, "config": "?", "detail": tres.out[-800:]})
    for tid, tr in enumerate(traces, start=1):
        reached, need = prog.get(tid, (0, len(tr["events"]) + 1))
        if reached >= need:
            accepted += 1
        elif not tres.invariant_violated:
            ev = tr["events"][reached - 1] if 1 <= reached <= len(tr["events"]) else {}
            # name the failing clause (diagnosis only)
            lab = "rows"
            if ev.get("ev") == "Setup":
                lab = "setup:rhs=%s,jac=%s" % (ev.get("rhs"), ev.get("jac"))
            if ev.get("ev") in ("Append", "Return") and ev.get("rows") is not None:
                nobs = len(ev["rows"])
                if ev["ev"] == "Return" and nobs != tr["nt"] + (1 if tr["includeOrigin"] else 0):
                    lab = "row-count"
            rejected.append({"label": lab, "config": meta[tid - 1]["config"], "at": reached,
                             "event": {k: v for k, v in ev.items() if k != "rows"},
                             "observed": ev.get("rows", [])[:4], "reference": tr["ref"][:4], "tol": tr["tol"],
                             "scale": tr["scale"], "grid": meta[tid - 1]["grid"], "shape": shape})
    return accepted, rejected, tres.distinct or 0


def spec_ode(defn, events, odes, workdir, tag, want=()):
    """the specification's normal forms for this definition (one TLC oracle run)"""
    from harness import oracle_model as om
    outs, res = om.run_tlc_oracle([defn.to_json(0, want=list(want), events=events, odes=odes)], workdir, tag)
    return outs[0], res


def det_worker(args):
    from harness import build, record_det as rd
    seed, idx, opts = args
    rng = random.Random((seed << 16) + idx)
    res = {"idx": idx, "findings": [], "rejected": [], "accepted": 0, "calls": 0, "states": 0, "steps": 0,
           "configs": [], "maxerr": 0.0}
    workdir = tlc.scratch_dir("tr_det_")
    try:
        cat = opts.get("catalogue")
        if cat is not None:
            entry = catalogue.models()[cat]
            defn, theta, x0, tend = entry["defn"], entry["theta"], entry["x0"], float(entry["tend"])
            closed = entry["closed"]
            from pygom import common_models
            m = getattr(common_models, entry["factory"])()
            from pygom.model import ode_utils
            m._SC = ode_utils.compileCode(backend="lambda")
            events, odes = [], [{"kind": "ode", "st": p["st"], "eqn": p["eqn"]} for p in defn.procs]
            res["name"] = entry["name"]
        else:
            defn, theta, x0, tend = rd.random_det_model(rng, closed=opts.get("closed", False))
            closed = all(p["kind"] == "event" and all(t["ty"] == "T" for t in p["trs"]) for p in defn.procs)
            try:
                m, events, odes = build.build(defn, rng=rng, style=rng.randrange(6),
                                              backend=("cython" if opts.get("cython") else "lambda"))
            except Exception as ex:
                res["findings"].append({"what": "model construction raised", "detail": repr(ex)[:300]})
                return res
            res["name"] = "random-%d" % idx
        res["describe"] = defn.describe()
        res["closed"] = closed
        sy = defn.sy
        for phase in (0, 1):
            if phase == 1:
                # THE SAME model object, already solved, is extended (add_event / add_transition / add_birth_death /
                # add_ode) and solved again: the later solutions must be those of the extended definition
                if cat is not None or not opts.get("extend") or rng.random() >= opts["extend"] or res["findings"] or res["rejected"]:
                    break
                proc = rd.extra_process(rng, defn)
                route = build.pick_add_route(rng, proc)
                try:
                    if route == "ODE":
                        from pygom import Transition
                        terms = build.ode_terms_of_event(sy, proc)
                        # every term is entered as two halves: two ODE-type transitions with the same origin add up
                        half = [(st_, codec.pscale(Fraction(1, 2), eqn)) for st_, eqn in terms]
                        for st_, eqn in half + half:
                            m.add_ode(Transition(origin=sy.states[st_ - 1], equation=codec.render(sy, eqn, rng.randrange(6), rng),
                                                 transition_type="ODE"))
                        odes = list(odes) + [{"kind": "ode", "st": st_, "eqn": eqn} for st_, eqn in terms]
                    else:
                        _slot, adder, obj = build.api_object(sy, proc, route, codec.render(sy, proc["rate"], rng.randrange(6), rng),
                                                             style=rng.randrange(6), rng=rng)
                        getattr(m, adder)(obj)
                        events = list(events) + [proc]
                except Exception as ex:
                    res["findings"].append({"what": "extending a solved model raised", "detail": repr(ex)[:300]})
                    break
                closed = closed and all(t["ty"] == "T" for t in proc["trs"])
                res["extended"] = route
                res["extended_process"] = {"rate": codec.render(sy, proc["rate"]), "trs": [(t["ty"], t["o"], t["d"]) for t in proc["trs"]]}
            out, _ = spec_ode(defn, events, odes, workdir, "det%d_%d" % (idx, phase), want=["jac"])
            ode_polys = [codec.P(t) for t in out["ode"]]
            jac_polys = [[codec.P(t) for t in row] for row in out["jac"]]
            if cat is not None:
                # the catalogue object must be the transcribed model
                from harness import oracle_model as om
                mm = om.compare_model(defn, m, out, [], ["ode"], rng, numeric=False, npoints=2, reactant=False)
                if mm:
                    res["findings"].append({"what": "catalogue model differs from its published equations", "detail": str(mm[0])[:300]})
                    return res
            m.parameters = [float(v) for v in theta]
            rhs = refnum.rhs_from_spec(sy, ode_polys, theta)
            calls = rd.entry_calls(rng, opts.get("quick", True))
            if phase == 1:
                calls = calls[:3]
            traces, meta = [], []
            # what the integrators must be set up with: the specification's f and df/dx at the initial point
            f_fun = refnum.compile_polys(sy, ode_polys)
            J_fun = refnum.mat_from_spec(sy, jac_polys)
            for (entry_name, method, fo, io) in calls:
                special = None
                # grids that contain the initial time or a repeated time: only on the routes whose integrator accepts a
                # zero-length step: the odeint routes (scipy.integrate.ode wrappers may report failure on it: outside the quantifier,
                # DESIGN section 8)
                zero_ok = entry_name in ("integrate", "solve_determ")
                if zero_ok and rng.random() < 0.4:
                    special = rng.choice(["origin", "repeat"])
                # whole-number requested times handed over as integers, after a fractional initial time; or plain lists / tuples
                times_as = None
                if special is None and entry_name in ("integrate", "solve_determ", "integrate2") and rng.random() < 0.12:
                    # a single requested time handed over as a bare number
                    special, times_as = "single", "scalar"
                elif special is None and rng.random() < 0.3:
                    if tend >= 2.0 and rng.random() < 0.6:
                        special = "int"
                        times_as = rng.choice(["int-list", "int-array"])
                    else:
                        times_as = rng.choice(["list", "tuple"])
                grid = rd.time_grid(rng, tend, special=special)
                v0 = [float(v) for v in x0] + [float(grid[0])] + [float(v) for v in theta] + [0.0] * sy.nd
                f_ref = np.array(f_fun(v0), float)
                J_ref = J_fun(v0)
                try:
                    ref = refnum.solve(rhs, [float(v) for v in x0], grid)
                except Exception as ex:
                    res["machinery"] = "reference integration failed: %r" % ex
                    return res
                sol, snaps, err = rd.perform_call(m, entry_name, method, fo, io, x0, grid, times_as=times_as)
                res["calls"] += 1
                cfgname = "%s/%s/full=%s/origin=%s%s" % (entry_name, method, fo, io, ("" if not special else "/grid=" + special) + ("" if not times_as else "/times=" + times_as) + ("" if phase == 0 else "/after-add"))
                res["configs"].append(cfgname)
                setup = rd.judge_setup(rd.perform_call.last_setup, f_ref, J_ref)
                if err:
                    res["findings"].append({"what": "deterministic entry point raised", "detail": err, "config": cfgname,
                                            "shape": "single-state" if sy.ns == 1 else "multi-state"})
                    continue
                if sol.ndim != 2 and not (sol.ndim == 1 and sy.ns == 1):
                    res["findings"].append({"what": "returned solution is not a table", "detail": str(sol.shape), "config": cfgname,
                                            "shape": "single-state" if sy.ns == 1 else "multi-state"})
                    continue
                sol = sol.reshape(sol.shape[0], -1)
                rel = 1e-5 if method == "odeint" else 1e-7
                tr = rd.to_call_trace(entry_name, method, fo, io, ref, sol, snaps, closed, rel, setup=setup)
                traces.append(tr)
                meta.append({"config": cfgname, "grid": [float(g) for g in grid]})
                if sol.shape[0] == ref.shape[0] - (0 if io else 1):
                    r2 = ref if io else ref[1:]
                    res["maxerr"] = max(res["maxerr"], float(np.max(np.abs(sol - r2)) / (1 + np.max(np.abs(ref)))))
            if not traces:
                break
            try:
                accepted, rejected, states = validate_calls(traces, meta, workdir, "single-state" if sy.ns == 1 else "multi-state")
            except report.Machinery as ex:
                res["machinery"] = str(ex)
                return res
            res["accepted"] += accepted
            res["rejected"] += rejected
            res["states"] += states
            res["steps"] += sum(len(tr["events"]) for tr in traces)
            res["sample"] = {"config": meta[0]["config"], "grid": meta[0]["grid"], "reference_first_rows": traces[0]["ref"][:2],
                             "scale": traces[0]["scale"], "tol": traces[0]["tol"]}
        res["theta"] = [str(t) for t in theta]
        res["x0"] = [str(v) for v in x0]
    finally:
        shutil.rmtree(workdir, ignore_errors=True)
    return res


def stiff_worker(args):
    """a stiff instance (van der Pol, large mu, a long gap before the requested times): explicit and non-stiff methods
    cannot finish the interval within their step budget.  The call may REFUSE (raise the documented IntegrationError);
    if it returns, the rows must be the solution (reference: Radau on the specification's right-hand side)."""
    from harness import record_det as rd
    from pygom import common_models
    from pygom.model import ode_utils
    mu, seed = args
    res = {"idx": "stiff-mu%g" % mu, "name": "vanDerPol(mu=%g)" % mu, "findings": [], "rejected": [], "accepted": 0, "calls": 0,
           "states": 0, "steps": 0, "configs": [], "maxerr": 0.0, "refused": 0}
    entry = next(e for e in catalogue.models() if e["name"] == "vanDerPol")
    defn = entry["defn"]
    sy = defn.sy
    workdir = tlc.scratch_dir("tr_stiff_")
    try:
        odes = [{"kind": "ode", "st": p["st"], "eqn": p["eqn"]} for p in defn.procs]
        out, _ = spec_ode(defn, [], odes, workdir, "stiff", want=["jac"])
        ode_polys = [codec.P(t) for t in out["ode"]]
        jac_polys = [[codec.P(t) for t in row] for row in out["jac"]]
        theta = [float(mu)]
        x0 = [2.0, 0.0]
        m = common_models.vanDerPol([float(mu)])
        m._SC = ode_utils.compileCode(backend="lambda")
        grid = np.array([0.0, 1.5 * mu, 1.6 * mu])
        rhs = refnum.rhs_from_spec(sy, ode_polys, theta)
        ref = refnum.solve(rhs, x0, grid, method="Radau", rtol=1e-10, atol=1e-12)
        v0 = x0 + [0.0] + theta
        f_ref = np.array(refnum.compile_polys(sy, ode_polys)(v0), float)
        J_ref = refnum.mat_from_spec(sy, jac_polys)(v0)
        traces, meta = [], []
        for entry_name, method in [("integrate2", mth) for mth in rd.METHODS] + [("integrateFuncJac", mth) for mth in rd.METHODS]:
            sol, snaps, err = rd.perform_call(m, entry_name, method, False, True, x0, grid)
            res["calls"] += 1
            cfgname = "%s/%s/full=False/origin=True/stiff" % (entry_name, method)
            res["configs"].append(cfgname)
            setup = rd.judge_setup(rd.perform_call.last_setup, f_ref, J_ref)
            if err:
                if "IntegrationError" in err:
                    res["refused"] += 1
                    tr = rd.to_call_trace(entry_name, method, False, True, ref, np.zeros((0, 2)), snaps, False, 1e-5, setup=setup)
                    tr["events"] = [e for e in tr["events"] if e["ev"] != "Return"] + [{"ev": "Refuse"}]
                    traces.append(tr)
                    meta.append({"config": cfgname, "grid": grid.tolist()})
                else:
                    res["findings"].append({"what": "deterministic entry point raised", "detail": err, "config": cfgname, "shape": "stiff"})
                continue
            sol = np.asarray(sol, float).reshape(np.asarray(sol).shape[0], -1)
            traces.append(rd.to_call_trace(entry_name, method, False, True, ref, sol, snaps, False, 1e-5, setup=setup))
            meta.append({"config": cfgname, "grid": grid.tolist()})
        accepted, rejected, states = validate_calls(traces, meta, workdir, "stiff")
        res["accepted"], res["rejected"], res["states"] = accepted, rejected, states
        res["steps"] = sum(len(t["events"]) for t in traces)
    finally:
        shutil.rmtree(workdir, ignore_errors=True)
    return res
