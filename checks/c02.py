"""C02 -- deterministic solvers return the ODE solution at each requested time.

E  MC_Integrator: for every method, full_output, includeOrigin and EITHER behaviour of the integrator's y
   buffer (updated in place or replaced), the rows returned are the requested points and a row once handed
   out never changes -- provided the wrapper copies the rows; negative control CopyRows = FALSE (the pinned
   tree) must give TLC's counterexample.
A  every entry point (integrate, solve_determ, integrate2, integrateFuncJac) x method x full_output x
   includeOrigin on random bounded-rate models and hand-transcribed catalogue models, uniform and non-uniform
   grids; rows recorded after every step from outside; TLC (TR_Integrator) checks row count, origin row,
   immutability and |row - reference| <= tol, the reference being the SPECIFICATION's right-hand side
   integrated by an independent DOP853 (rtol 1e-12).
"""
from checks import modelcommon as mc, detcommon as dc
from engine import tlc, report, catalogue


def cfg_key(c):
    """entry/method/full -- the classification of a configuration (origin flag left out)"""
    if not c:
        return "?"
    return "/".join(c.split("/")[:3])


def judge(rep, results):
    acc = 0
    for r in results:
        if r.get("machinery"):
            raise report.Machinery("model %s: %s" % (r.get("name"), r["machinery"]))
        rep.count(r["calls"])
        rep.traces(r["accepted"])
        acc += r["accepted"]
        rep.cov["states"] += r["states"]
        rep.cov["transitions"] += r["steps"]
        model = {"name": r.get("name"), "definition": r.get("describe"), "theta": r.get("theta"), "x0": r.get("x0")}
        for f in r["findings"]:
            rep.violation("%s: %s (%s)" % (f["what"], f["detail"], f.get("config")), {"model": model, "finding": f},
                          key="python|%s|%s|%s" % (f["what"], f.get("shape"), cfg_key(f.get("config"))))
        for rej in r["rejected"]:
            rep.violation("call rejected by TR_Integrator (%s) %s at event %s: observed %s reference %s tol %s" %
                          (rej["label"], rej.get("config"), rej.get("at"), str(rej.get("observed"))[:150],
                           str(rej.get("reference"))[:150], rej.get("tol")),
                          {"model": model, "rejection": rej},
                          key="tlc|%s|%s|%s" % (rej["label"], rej.get("shape"), cfg_key(rej.get("config"))))
        rep.cov["max_relative_error_seen"] = max(rep.cov.get("max_relative_error_seen", 0.0), r["maxerr"])
        for c in r["configs"]:
            rep.cov.setdefault("configs", {})
            rep.cov["configs"][c] = rep.cov["configs"].get(c, 0) + 1
        if r["accepted"]:
            rep.distinct(r.get("name"))
        if r.get("sample"):
            rep.sample({"model": model, "call": r["sample"]}, limit=2)
    return acc


def run(rep, tier, seed):
    quick = tier == "quick"
    res = tlc.run("MC_Integrator", cfg="MC_Integrator", workers=4, coverage=True)
    if res.invariant_violated:
        raise report.Machinery("Integrator.tla violates %s" % res.invariant_violated)
    rep.add_tlc("MC_Integrator(NT=3, CopyRows=TRUE)", res, exhaustive=True)
    neg = tlc.run("MC_Integrator", cfg="MC_Integrator_neg", workers=1)
    if not neg.invariant_violated:
        raise report.Machinery("negative control: without copying the rows TLC must find the aliasing counterexample")
    rep.cov["negative_control"] = "CopyRows=FALSE -> %s violated" % neg.invariant_violated
    ncat = len(catalogue.models())
    n = 24 if quick else 400
    jobs = [(seed % 100000 + 2, i, {"catalogue": i, "quick": quick}) for i in range(ncat)]
    jobs += [(seed % 100000 + 2, 100 + i, {"quick": quick, "cython": (i % 12 == 0), "extend": 0.5}) for i in range(n)]
    results = mc.pool_map(dc.det_worker, jobs)
    stiff = mc.pool_map(dc.stiff_worker, [(100.0, seed), (300.0, seed)])
    rep.cov["stiff_instances"] = {r["name"]: {"calls": r["calls"], "refused_with_IntegrationError": r["refused"],
                                              "returned_and_validated": r["accepted"] - r["refused"]} for r in stiff}
    results += stiff
    acc = judge(rep, results)
    rep.assume("reference engine: scipy solve_ivp DOP853 (rtol 1e-12, atol 1e-13) on the specification's right-hand side")
    rep.assume("tolerance 1e-5 (1+max|ref|) on the odeint path (default tolerances 1.5e-8), 1e-7 (1+max|ref|) on the "
               "atol=rtol=1e-10 paths; instances generated with L*T <= 8")
    rep.cov["models_extended_after_solving"] = sum(1 for r in results if r.get("extended"))   # same object, add_* then solved again
    rep.rule("%d catalogue + %d random bounded-rate models; per model every entry point x method (quick: a sample of 5) x "
             "full_output x includeOrigin, uniform or non-uniform grid; a call is one trace" % (ncat, n))
    if acc == 0 and not rep.violations and not rep.known_hits:
        raise report.Machinery("no call was accepted (vacuous)")


def selftest(seed):
    from checks import selftest as st
    return st.run([st.integrator])
