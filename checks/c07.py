"""C07 -- the gradient handed to optimisers is the derivative of cost.

E  as C06 (MC_LossWiring), in particular InvColumnsP / InvColumnsIV: the sensitivity columns the implementation selects
   carry, for the k-th free variable IN SUPPLIED ORDER and the j-th named state, the symbol dx_{obs[j]}/d free_k.
G  script  sensitivity(v); jac(); sensitivityIV(v (+) x); jacIV(); gradient(); jac(v); sensitivityIV(x only); sensitivity()
   on every wiring + simulated histories; expected gradient = sum over cells of D1(class) (LossKernel.tla, exact
   normal forms) times the reference sensitivity named by the recipe (SensLayout's augmented systems integrated by
   the reference engine).  Non-unit weights only for the square and normal classes.
"""
from checks import losscommon as lc

OPS = {"sensitivity", "gradient", "jac", "sensitivityIV", "jacIV"}


def run(rep, tier, seed):
    lc.run_loss(rep, tier, seed, "C07", OPS)
    rep.rule("script C07 on every (quick: a sample of the) wiring of each size + simulated histories; gradient compared "
             "entry by entry in supplied order, jac / jacIV column by column")


def replay(path):
    return lc.replay_file(path, OPS)
