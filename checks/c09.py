"""C09 -- parameter values are bound to the parameters they were given for.

E  MC_ParamBind: all histories of assignments (every accepted form, every permutation of pairs, every
   subset of a partial dict, every rejection kind); BoundToName, RejectedBindsNothing, PartialKeepsOthers.
   With WithRandom the menu also has dicts that bind names to DISTRIBUTIONS (frozen scipy distribution, (sampler, args) with
   positional / keyword arguments; narrow pairwise disjoint supports, so an evaluation shows which distribution a name is
   bound to) and the calls that re-draw them (integrate, integrate2, solve_stochast); RandomIffDistribution,
   NumberEndsRedrawing, IntegrateKeepsBinding.
G  every maximal history TLC generates is performed on a fresh real model; after every call
   eventRateVector / ode / grad of a model with rates theta_k * X_k must show the specification's binding.
"""
import os
import shutil

from checks import modelcommon as mc
from engine import tlc, report
from harness import replay_parambind as rp

CFG = """SPECIFICATION Spec
CONSTANTS
  NPar = %(npar)d
  MaxCalls = %(calls)d
  DumpOn = %(dump)s
  WithScalar = FALSE
  WithRandom = %(rand)s
INVARIANT BoundToName
INVARIANT HalfBoundOnlyByPartialDicts
INVARIANT RandomIffDistribution
INVARIANT Dump
PROPERTY RejectedBindsNothing
PROPERTY PartialKeepsOthers
PROPERTY NumberEndsRedrawing
PROPERTY IntegrateKeepsBinding
CHECK_DEADLOCK FALSE
"""


def tlc_run(rep, npar, calls, dump, simulate=None, seed=None, rand=False):
    d = tlc.scratch_dir("mc_parambind_")
    try:
        cfg = os.path.join(d, "pb.cfg")
        with open(cfg, "w") as f:
            f.write(CFG % {"npar": npar, "calls": calls, "dump": "TRUE" if dump else "FALSE",
                           "rand": "TRUE" if rand else "FALSE"})
        res = tlc.run("MC_ParamBind", cfg=cfg, workers=mc.NPROC if not simulate else 1, coverage=not dump,
                      simulate=simulate, depth=(calls + 1 if simulate else None), seed=seed,
                      deadlock=not simulate, timeout=3000)
    finally:
        shutil.rmtree(d, ignore_errors=True)
    if res.invariant_violated:
        raise report.Machinery("ParamBind violates its own property %s (design error)" % res.invariant_violated)
    return res


def run(rep, tier, seed):
    quick = tier == "quick"
    total = 0
    # (NPar, MaxCalls, simulate, with distributions): the full menu of deterministic forms, and the reduced menu with
    # bindings to distributions and the re-drawing integrations
    plans = [(3, 2, None, False), (1, 3, None, False), (2, 3, None, True)] if quick else \
        [(3, 3, None, False), (1, 3, None, False), (2, 3, None, False), (2, 4, None, True), (3, 3, None, True)]
    sim = [(3, 3, "num=1500", False), (3, 5, "num=400", True)] if quick else \
        [(3, 4, "num=30000", False), (3, 6, "num=6000", True)]
    for npar, calls, _, rand in plans:
        res = tlc_run(rep, npar, calls, dump=False, rand=rand)
        rep.add_tlc("MC_ParamBind(NPar=%d,MaxCalls=%d%s)" % (npar, calls, ",WithRandom" if rand else ""), res, exhaustive=True)
    runs = plans + sim
    forms = set()
    for npar, calls, simulate, rand in runs:
        res = tlc_run(rep, npar, calls, dump=True, simulate=simulate, seed=seed % 100000, rand=rand)
        hists = [h for h in res.printed() if isinstance(h, list)]
        if not hists:
            raise report.Machinery("no histories dumped by MC_ParamBind")
        seen, uniq = set(), []
        for h in hists:
            k = repr(h)
            if k not in seen:
                seen.add(k)
                uniq.append(h)
        if simulate and rand:
            # histories with integrations are slow to perform (every one compiles and runs the integrators)
            uniq = uniq[:1200 if quick else 12000]
        for h in uniq:
            for s in h:
                forms.add(s["act"] + "/" + s["form"])
        chunks = [uniq[i::mc.NPROC * 2] for i in range(mc.NPROC * 2)]
        out = mc.pool_map(rp.worker, [(c, npar) for c in chunks if c])
        for bad, n in out:
            total += n
            for b in bad:
                mm = b["mismatch"]
                acts = [s["act"] for s in b["hist"][:mm["step"]]]
                key = mm["what"] + "|" + ">".join(a for a in acts if a.startswith("Reject"))
                if acts and acts[-1] == "Integrate":
                    key = mm["what"] + "|after-integration"
                rep.violation("%s (step %d, input %s)" % (mm["what"], mm["step"], mm["input"]),
                              {"npar": npar, "history": b["hist"], "mismatch": mm}, key=key)
        rep.count(len(uniq))
        for h in uniq:
            rep.distinct((npar, repr(h)))
        rep.sample({"npar": npar, "history": uniq[len(uniq) // 2]}, limit=3)
    rep.traces(total)
    for act in ("Positional", "Pairs", "Dict", "DictRandom", "Integrate", "RejectWrongLength", "RejectUnknownPairs",
                "RejectUnknownDict", "RejectTooMany", "RejectBadType"):
        if not any(f.startswith(act + "/") for f in forms):
            raise report.Machinery("action %s never occurred in the replayed histories (vacuous run)" % act)
    rep.cov["forms_exercised"] = sorted(forms)
    rep.rule("every maximal history of MC_ParamBind (exhaustive: %s; random longer: %s) replayed on a fresh model; "
             "a history is distinct by its sequence of calls" % (plans, sim))
