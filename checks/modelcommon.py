"""Shared drivers for the model-definition layer (C01, C03, C10 symbolic clause, C12)."""
import json
import multiprocessing as mp
import os
import random

from engine import tlc, report, codec, gen
from engine.codec import Symbols

NPROC = min(16, os.cpu_count() or 4)


def pool_map(fn, jobs, nproc=NPROC):
    if not jobs:
        return []
    # an executor rather than multiprocessing.Pool: when a worker process dies (e.g. killed by the operating system for
    # lack of memory) Pool.map waits for ever, the executor reports it -- a machinery failure, not a hang
    from concurrent.futures import ProcessPoolExecutor
    from concurrent.futures.process import BrokenProcessPool
    ctx = mp.get_context("fork")
    try:
        with ProcessPoolExecutor(max_workers=min(nproc, len(jobs)), mp_context=ctx) as ex:
            return list(ex.map(fn, jobs, chunksize=1))
    except BrokenProcessPool:
        raise report.Machinery("a worker process died while %s was running (killed by the operating system?)"
                               % getattr(fn, "__name__", "a job"))


# ---------------------------------------------------------------------------
# E: exhaustive exploration of spec/MC_ModelDef

MC_CFG = """SPECIFICATION Spec
CONSTANTS
  NS = 2
  NP = 2
  ND = 1
  NSym = 7
  Atoms <- MCAtoms
  Derived <- MCDerived
  Menu <- MCMenu
  MaxHist = %(maxhist)d
  DumpOn = %(dump)s
  DumpDerivs = %(derivs)s
INVARIANT InvOdeIsVRPlusPure
INVARIANT InvRouteIndependent
INVARIANT InvVRRouteIndependent
INVARIANT InvClosedConserves
INVARIANT InvReactantSupport
INVARIANT InvWellFormed
INVARIANT Dump
CHECK_DEADLOCK FALSE
"""

MC_SYMBOL_NAMES = {"states": ["S", "I"], "params": ["b", "g"], "derived": ["d1"]}


def run_mc_modeldef(rep, maxhist, dump=False, derivs=False, workers=NPROC, timeout=3000):
    """exhaustive run; returns (Result, header, states) -- header/states only when dump"""
    d = tlc.scratch_dir("mc_modeldef_")
    try:
        cfg = os.path.join(d, "MC_ModelDef_run.cfg")
        with open(cfg, "w") as f:
            f.write(MC_CFG % {"maxhist": maxhist, "dump": "TRUE" if dump else "FALSE",
                              "derivs": "TRUE" if derivs else "FALSE"})
        res = tlc.run("MC_ModelDef", cfg=cfg, workers=workers, coverage=not dump, timeout=timeout)
    finally:
        import shutil
        shutil.rmtree(d, ignore_errors=True)
    if res.invariant_violated:
        raise report.Machinery("the specification itself violates %s in MC_ModelDef (design error):\n%s"
                               % (res.invariant_violated, res.out[-3000:]))
    if not dump:
        rep.add_tlc("MC_ModelDef(MaxHist=%d)" % maxhist, res, exhaustive=True)
        # vacuity guard: every action of the specification was taken
        for act in ("CtorArg", "Construct", "AddCall"):
            if res.coverage.get(act, [0, 0])[1] == 0:
                raise report.Machinery("action %s never taken in MC_ModelDef (vacuous run)" % act)
        return res, None, None
    header, states = None, []
    for obj in res.printed():
        if "menu" in obj:
            header = obj
        elif "hist" in obj:
            states.append(obj)
    if header is None or not states:
        raise report.Machinery("MC_ModelDef dump produced no states")
    return res, header, states


def defn_from_dump(header, state):
    """rebuild the abstract definition (engine.gen.Defn) of one dumped TLC state"""
    sym = header["sym"]
    atoms = [{"kind": a["kind"], "arg": codec.P(a["arg"]), "pair": a["pair"]} for a in sym["atoms"]]
    sy = Symbols(MC_SYMBOL_NAMES["states"], MC_SYMBOL_NAMES["params"], MC_SYMBOL_NAMES["derived"], atoms)
    assert sy.n == sym["n"] and sy.ns == sym["ns"] and sy.np == sym["np"]
    derived = [codec.P(t) for t in sym["derived"]]
    procs, routes, hows = [], [], []
    for h in state["hist"]:
        m = header["menu"][h["k"] - 1]
        if m["kind"] == "ode":
            procs.append({"kind": "ode", "st": m["st"], "eqn": codec.P(m["eqn"])})
        else:
            procs.append({"kind": "event", "rate": codec.P(m["rate"]),
                          "trs": [{"ty": t["ty"], "o": t["o"], "d": t["d"], "mag": codec.P(t["mag"])}
                                  for t in m["trs"]]})
        routes.append(h["route"])
        hows.append(h["how"])
    return gen.Defn(sy, derived, procs), routes, hows


def replay_worker(args):
    """G mode: perform the API calls of dumped TLC states on real objects and compare."""
    from harness import build, oracle_model as om
    header, states, keys, seed = args
    out = []
    for st in states:
        defn, routes, hows = defn_from_dump(header, st)
        rng = random.Random(seed + len(out))
        r = {"hist": st["hist"], "mism": []}
        warm = om.warmup(defn, keys, rng)
        try:
            m, events, odes = build.build(defn, rng=rng, style=rng.randrange(6), routes=routes, hows=hows,
                                          on_step=warm,
                                          sform=rng.choice(["list", "space", "comma"]),
                                          pform=rng.choice(["list", "space", "comma"]))
        except Exception as ex:
            r["mism"].append({"key": "build", "kind": "raised", "detail": repr(ex)[:300]})
            out.append(r)
            continue
        if len(events) != len(st["R"]):
            r["mism"].append({"key": "events", "kind": "count", "detail": "%d vs spec %d" % (len(events), len(st["R"]))})
        else:
            r["mism"] += om.compare_model(defn, m, st, events, keys, rng, numeric=True, npoints=2)
        out.append(r)
    return out


def replay_states(header, states, keys, seed, nproc=NPROC):
    chunks = [states[i::nproc * 4] for i in range(nproc * 4)]
    jobs = [(header, c, keys, seed + 1000 * i) for i, c in enumerate(chunks) if c]
    res = pool_map(replay_worker, jobs, nproc)
    return [r for chunk in res for r in chunk]


# ---------------------------------------------------------------------------
# O: random definitions at full size

def run_oracle(n, seed, opts, nproc=NPROC, chunk=10):
    from harness import oracle_model as om
    ids = list(range(n))
    jobs = [(seed, ids[i:i + chunk], opts) for i in range(0, n, chunk)]
    res = pool_map(om.chunk_worker, jobs, nproc)
    out = []
    for r in res:
        out += r["results"]
    return out
