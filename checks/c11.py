"""C11 -- declared state limits are never violated in stochastic simulation.

E  APA_JumpLimits: for arbitrary integer populations, limits and proposed steps, InLimits is inductive under the accept /
   reject discipline (Apalache; negative control: upper limits ignored).
E  MC_Jump instances: InLimits, RejectedStepChangesNothing over lower / upper / two-sided / absent limits.
G  the complete case table of the limit test (limit kind x new value below / at / inside / at / above, two
   states) replayed on stochastic_simulation._checkJump.
A  recorded runs (limits from the declaration, default (0, None)); TLC rejects a run when a recorded state
   is outside the limits, when an accepted step should have been rejected or vice versa, or when a rejected
   step changed state or time.
"""
import itertools

import numpy as np

from checks import modelcommon as mc, jumpcommon as jc
from checks.c04 import judge


def case_table(rep):
    """G: exhaustive table of _checkJump (the specification's InLim decides the expected outcome)"""
    from harness import build  # noqa
    from pygom.model import stochastic_simulation as ss
    kinds = [(None, None), (0, None), (None, 5), (2, 5), (None, 0), (-3, 0), (0, 0)]      # limits that are exactly 0 included
    vals = [-4, -3, -1, 0, 1, 2, 3, 5, 6]
    n = 0
    for l1, l2 in itertools.product(kinds, kinds):
        for v1, v2 in itertools.product(vals, vals):
            x = np.array([3.0 if (l1[1] is None or l1[1] >= 3) else float(l1[1]), 3.0 if (l2[1] is None or l2[1] >= 3) else float(l2[1])])
            xn = np.array([float(v1), float(v2)])
            exp_ok = all((lo is None or v >= lo) and (hi is None or v <= hi) for v, (lo, hi) in zip((v1, v2), (l1, l2)))
            try:
                t_new, dt, x_out, jumps, ok = ss._checkJump(x, xn, [l1, l2], 1.5, 0.25, [1, 0])
            except Exception as ex:
                rep.violation("_checkJump raised: %r" % ex, {"lims": [l1, l2], "new": [v1, v2]}, key="table|raised")
                continue
            n += 1
            good = (bool(ok) == exp_ok) and (np.array_equal(x_out, xn) and t_new == 1.75 if exp_ok
                                             else np.array_equal(x_out, x) and t_new == 1.5)
            if not good:
                rep.violation("limit test wrong for limits %s new state %s: ok=%s x=%s t=%s" %
                              ([l1, l2], [v1, v2], ok, x_out, t_new), {"lims": [l1, l2], "new": [v1, v2]},
                              key="table|value")
    rep.count(n)
    rep.cov["limit_case_table"] = n


def hybrid_worker(args):
    """event models that also carry explicit ODE terms: under tau-leaping the deterministic drift is part of the proposed
    step.  States are no longer integers, so these runs are judged here directly: every recorded state within its limits."""
    import random
    import numpy as np
    from harness import record_jump as rj
    from pygom import Transition
    seed, idx = args
    rng = random.Random((seed << 16) + idx)
    defn, theta, x0, lims = rj.random_jump_model(rng, limits=True)
    out = {"idx": idx, "describe": defn.describe(), "x0": x0, "lims": lims, "bad": [], "runs": 0}
    try:
        m, _ = rj.make_model(defn, theta, x0, lims, rng)
        sy = defn.sy
        # a drift that pushes one state towards one of its limits
        cand = [i for i, (lo, hi) in enumerate(lims) if lo is not None or hi is not None]
        if not cand:
            return out
        i = rng.choice(cand)
        lo, hi = lims[i]
        k = rng.choice([2.0, 5.0, 12.0])
        eqn = ("-%g*%s - %g" % (k, sy.states[i], k)) if (lo is not None and (hi is None or rng.random() < 0.5)) else ("%g*%s + %g" % (k, sy.states[i], k))
        m.add_ode(Transition(origin=sy.states[i], equation=eqn, transition_type="ODE"))
        out["drift"] = {"state": sy.states[i], "equation": eqn}
    except Exception as ex:
        out["bad"].append({"what": "model construction raised", "detail": repr(ex)[:200]})
        return out
    r0 = max(sum(rj.rate_float(defn, theta, x0)), 1e-6)
    T = min(3.0, 20.0 / r0)
    for pre_tau in (None, T / 4.0, T / 2.0):
        np.random.seed((seed * 17 + idx * 5 + out["runs"]) % (2 ** 31))
        m.pre_tau = pre_tau
        m.initial_values = (np.array(x0, float), np.float64(0))
        import signal

        class _Slow(BaseException):
            pass

        def _alarm(signum, frame):
            raise _Slow()
        signal.signal(signal.SIGALRM, _alarm)
        signal.setitimer(signal.ITIMER_REAL, 20, 2)      # repeating: a first exception swallowed inside a finalizer is not the last
        try:
            X, J, Tm = m.solve_stochast(T, 1, exact=False, full_output=True)
            signal.setitimer(signal.ITIMER_REAL, 0)
        except _Slow:
            signal.setitimer(signal.ITIMER_REAL, 0)
            continue
        except Exception as ex:
            signal.setitimer(signal.ITIMER_REAL, 0)
            if "lam value too large" in repr(ex):
                continue         # the generated model's population exploded (not a bounded-rate model): numpy refuses the Poisson mean
            out["bad"].append({"what": "solve_stochast raised", "detail": repr(ex)[:200], "pre_tau": pre_tau})
            continue
        out["runs"] += 1
        A = np.asarray(X[0], float).reshape(len(X[0]), -1)
        for j, (lo, hi) in enumerate(lims):
            if lo is not None and np.min(A[:, j]) < lo - 1e-9:
                out["bad"].append({"what": "recorded state below its lower limit", "state": j, "value": float(np.min(A[:, j])), "limit": lo, "pre_tau": pre_tau})
                break
            if hi is not None and np.max(A[:, j]) > hi + 1e-9:
                out["bad"].append({"what": "recorded state above its upper limit", "state": j, "value": float(np.max(A[:, j])), "limit": hi, "pre_tau": pre_tau})
                break
    return out


def run(rep, tier, seed):
    quick = tier == "quick"
    jc.run_mc_jump(rep, tier, only=("sirb_tau", "bd2_tau", "mt_exact", "one_tau"))
    # unbounded populations, arbitrary limits and proposed steps: InLimits is inductive (Apalache)
    from engine import tlc, report
    apa = {}
    for label, cinit, want in (("step", "CInit", "NoError"), ("negative control (upper limits ignored)", "CInitNoHi", "Error")):
        outcome, wall, tail = tlc.apalache("APA_JumpLimits", "IndInit", "InLimits", 1, cinit=cinit)
        apa[label] = {"outcome": outcome, "wall_s": round(wall, 1)}
        if outcome != want:
            raise report.Machinery("Apalache APA_JumpLimits (%s): expected %s, got %s\n%s" % (label, want, outcome, tail))
    rep.cov["apalache_inductive_invariant"] = apa
    case_table(rep)
    n = 48 if quick else 900
    jobs = [(seed % 100000 + 11, i, {"checkdraws": False, "max_steps": 120 if quick else 250, "extend": 0.3}) for i in range(n)]
    results = mc.pool_map(jc.model_worker, jobs)
    judge(rep, results, {"limits", "invariant:InLimitsNow", "invariant:RejectedStepChangesNothing"}, "C11",
          python_findings=False)
    hres = mc.pool_map(hybrid_worker, [(seed % 100000 + 12, i) for i in range(24 if quick else 300)])
    for r in hres:
        rep.count(r["runs"])
        for b in r["bad"]:
            rep.violation("event model with a deterministic drift: %s" % b, {"definition": r["describe"], "x0": r["x0"], "lims": r["lims"],
                                                                              "drift": r.get("drift"), "finding": b},
                          key="hybrid|%s" % b["what"])
    rep.cov["hybrid_models_with_drift"] = len(hres)
    lim_kinds = {}
    for r in results:
        for lo, hi in r["lims"]:
            k = ("none" if lo is None else "lo") + "/" + ("none" if hi is None else "hi")
            lim_kinds[k] = lim_kinds.get(k, 0) + 1
    rep.cov["limit_kinds"] = lim_kinds
    rep.cov["models_extended_after_simulation"] = sum(1 for r in results if r.get("extended"))   # same object: add_event / add_transition / add_birth_death, then simulated again
    rep.rule("%d random event models x 8 runs with per-state limits of every kind, boundary starts, magnitudes up "
             "to 3, fixed large tau, several epsilon; plus the complete _checkJump table" % n)


def selftest(seed):
    from checks import selftest as st
    return st.run([st.jump])
