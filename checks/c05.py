"""C05 -- exact stochastic simulation samples the CTMC's law.

Mechanism (decides the property, deterministic): every exact step of recorded runs carries the
  intercepted exponential draws; TR_Jump.DrawsOK requires one clock per event with positive rate and none
  otherwise, scale * rate = 1 with the rate taken from the specification's rate polynomial evaluated exactly
  in Q, the chosen event = the unique minimum, the waiting time = that minimum, all draws from the global
  stream.  With numpy's exponential sampler trusted, the first-reaction theorem gives the law for every stream.
  (If the intercepted pattern is not first-reaction shaped -- a refactoring to another exact method -- the
  mechanism is not judged and only the law test below applies.)
Law (second line, statistics against a specification-derived exact law): TLC enumerates the embedded jump
  chain of small closed SIR instances (SIRChain.tla prints every edge); the harness attaches the
  specification's rates and computes the exact final-size law with Fractions; linear progression chains:
  exact binomial occupancy at time t.  Every cell count of n real runs must lie in its exact binomial
  acceptance region; total false-alarm probability < 1e-8 per run of the check (Bonferroni).
"""
import os
import random
import re
import shutil
from fractions import Fraction

import numpy as np

from checks import modelcommon as mc, jumpcommon as jc
from checks.c04 import judge
from engine import tlc, report

ALPHA = 1e-8


def exact_raw(p):
    # the mechanism clause is about the serial route (all clocks from the global stream); the per-run call of the parallel
    # route is covered by the law test below
    return p["exact"] and not p.get("long") and not p.get("parallel")


# ---------------------------------------------------------------------------
# law test

def sir_chain_edges(rep, s0, i0):
    d = tlc.scratch_dir("sirchain_")
    try:
        cfg = os.path.join(d, "c.cfg")
        with open(cfg, "w") as f:
            f.write("SPECIFICATION Spec\nCONSTANTS\n  S0 = %d\n  I0 = %d\nINVARIANT TypeOK\nINVARIANT DeadIffAbsorbed\n"
                    "ACTION_CONSTRAINT Edge\nCHECK_DEADLOCK FALSE\n" % (s0, i0))
        res = tlc.run("SIRChain", cfg=cfg, workers=1)
    finally:
        shutil.rmtree(d, ignore_errors=True)
    if res.invariant_violated:
        raise report.Machinery("SIRChain violates %s" % res.invariant_violated)
    rep.add_tlc("SIRChain(S0=%d,I0=%d)" % (s0, i0), res, exhaustive=True)
    edges = {}
    for m in re.finditer(r'<<"EDGE", (\d+), (\d+), (\d+), (\d+), (\d+)>>', res.out):
        s, i, s2, i2, ev = map(int, m.groups())
        edges.setdefault((s, i), {})[ev] = (s2, i2)
    return edges


def final_size_law(edges, s0, i0, beta, gamma, n_pop):
    """exact P(final S = k) from the jump chain; rates beta*S*I/N and gamma*I (the specification's)"""
    prob = {(s0, i0): Fraction(1)}
    law = {}
    # process states in order of decreasing (2*S + I): every edge lowers it
    order = sorted(set(edges) | {v for e in edges.values() for v in e.values()} | {(s0, i0)},
                   key=lambda st: -(2 * st[0] + st[1]))
    for st in order:
        p = prob.get(st, Fraction(0))
        if p == 0:
            continue
        out = edges.get(st, {})
        if not out:
            law[st[0]] = law.get(st[0], Fraction(0)) + p
            continue
        s, i = st
        r = {1: beta * s * i / n_pop, 2: gamma * i}
        tot = sum(r[ev] for ev in out)
        for ev, nxt in out.items():
            prob[nxt] = prob.get(nxt, Fraction(0)) + p * r[ev] / tot
    assert sum(law.values()) == 1
    return law


def binom_region(n, p, alpha):
    from scipy.stats import binom
    p = float(p)
    if p <= 0:
        return 0, 0
    lo = int(binom.ppf(alpha / 2, n, p))
    hi = int(binom.isf(alpha / 2, n, p))
    return max(0, lo - 1), min(n, hi + 1)


def sir_runs(args):
    from harness import build  # noqa
    from pygom import SimulateOde, Transition, Event
    from pygom.model import ode_utils
    s0, i0, beta, gamma, n_pop, n, seed = args
    m = SimulateOde(state=["S", "I", "R"], param=["beta", "gamma", "N"],
                    event=[Event(rate="beta*S*I/N", transition_list=[Transition(origin="S", destination="I", transition_type="T")]),
                           Event(rate="gamma*I", transition_list=[Transition(origin="I", destination="R", transition_type="T")])])
    m._SC = ode_utils.compileCode(backend="lambda")
    m.parameters = [float(beta), float(gamma), float(n_pop)]
    m.initial_values = (np.array([s0, i0, 0.0]), np.float64(0))
    np.random.seed(seed)
    X, J, T = m.solve_stochast(1e6, n, exact=True, full_output=True)
    return [int(x[-1][0]) for x in X], [int(x[-1][1]) for x in X]


def chain_runs(args):
    """runs of the linear chain A -> B -> C (variant "death": A -> B -> removed).  Returns, per run, the state at every
    observation time.  Variants: "scalar" (horizon only; the state is read off the raw path), "own" (the per-run call of
    the parallel route), "grid" (a vector of observation times handed to solve_stochast: the rows it returns are what a
    user reads the law from), "limits" (grid route, every state declared with the two-sided limits (0, N0), which every
    reachable state satisfies), "death" (grid route, the last step is a death-type transition)."""
    from harness import build  # noqa
    from pygom import SimulateOde, Transition, Event
    from pygom.model import ode_utils
    n0, a, b, times, n, seed, variant = args
    times = [float(x) for x in times]
    if variant == "death":
        state = ["A", "B"]
        last = Transition(origin="B", transition_type="D")
    else:
        state = ["A", "B", "C"]
        last = Transition(origin="B", destination="C", transition_type="T")
    if variant == "limits":
        state = [(nm, (0, n0)) for nm in state]
    m = SimulateOde(state=state, param=["a", "b"],
                    event=[Event(rate="a*A", transition_list=[Transition(origin="A", destination="B", transition_type="T")]),
                           Event(rate="b*B", transition_list=[last])])
    m._SC = ode_utils.compileCode(backend="lambda")
    m.parameters = [float(a), float(b)]
    x0 = [float(n0), 0.0, 0.0][:len(state)]
    m.initial_values = (np.array(x0), np.float64(0))
    np.random.seed(seed)
    out = []
    import signal

    class _NoReturn(BaseException):
        pass

    def _alarm(*_a):
        raise _NoReturn()
    # a chunk of runs takes about a second; a simulation that has not come back after 240 s is reported as
    # "did not return" (a chain of N0 individuals has at most 2*N0 events)
    signal.signal(signal.SIGALRM, _alarm)
    signal.setitimer(signal.ITIMER_REAL, 240, 5)     # repeating, in case the first exception is swallowed by a finalizer
    try:
        out = _chain_rows(m, variant, times, n, state, form=seed)
    except _NoReturn:
        out = [None] * n
    finally:
        signal.setitimer(signal.ITIMER_REAL, 0)
    return out


def _chain_rows(m, variant, times, n, state, form=0):
    out = []
    if variant in ("scalar", "own"):
        if variant == "own":
            # the call solve_stochast(..., parallel=True) makes for each run (executed here one after the other): every
            # draw comes from a generator of its own, seeded by the operating system
            runs = [m._jump(times[-1] * 4, exact=True, full_output=True, seed=True) for _ in range(n)]
            X, T = [r[0] for r in runs], [r[2] for r in runs]
        else:
            X, J, T = m.solve_stochast(times[-1] * 4, n, exact=True, full_output=True)
        for x, t in zip(X, T):
            ks = [int(np.searchsorted(np.asarray(t, float), tt, side="right")) - 1 for tt in times]
            out.append([[int(v) for v in x[k]] for k in ks])
    else:
        grid = np.array([0.0] + times)
        # the requested times are handed over as an array, a list or a tuple
        tin = [grid, list(grid), tuple(grid)][form % 3] if variant == "grid" else grid
        X, J, T = m.solve_stochast(tin, n, exact=True, full_output=True)
        for x in X:
            x = np.asarray(x, float)
            if x.shape != (len(grid), len(state)):
                out.append(None)
                continue
            out.append([[int(v) for v in x[k + 1]] for k in range(len(times))])
    return out


def law_tests(rep, tier, seed):
    quick = tier == "quick"
    rng = random.Random(seed)
    sir_inst = [(11, 1, Fraction(3, 2), Fraction(1), 12)] if quick else \
        [(11, 1, Fraction(3, 2), Fraction(1), 12), (8, 2, Fraction(2), Fraction(1), 10), (15, 1, Fraction(5, 4), Fraction(1, 2), 16),
         (19, 1, Fraction(1), Fraction(1), 20), (6, 3, Fraction(3), Fraction(3, 2), 9), (12, 2, Fraction(1, 2), Fraction(1), 14)]
    chain_inst = [(10, Fraction(1), Fraction(1, 2), Fraction(1))] if quick else \
        [(10, Fraction(1), Fraction(1, 2), Fraction(1)), (6, Fraction(2), Fraction(1), Fraction(1, 2)),
         (14, Fraction(1, 2), Fraction(3, 2), Fraction(2)), (8, Fraction(3), Fraction(1, 4), Fraction(1)),
         (12, Fraction(1), Fraction(1), Fraction(3, 2)), (5, Fraction(1, 4), Fraction(2), Fraction(3))]
    n = 2400 if quick else 20000
    ninst = len(sir_inst) + len(chain_inst)
    cells_total = sum(s0 + 1 for s0, *_ in sir_inst) + sum(3 * (n0 + 1) for n0, *_ in chain_inst) + 3 * 3 * 9 * (max(c[0] for c in chain_inst) + 1)
    alpha_cell = ALPHA / cells_total
    rep.cov["law_test"] = {"runs_per_instance": n, "instances": ninst, "cells": cells_total, "alpha_per_cell": alpha_cell}
    nchunks = 16
    for (s0, i0, beta, gamma, npop) in sir_inst:
        edges = sir_chain_edges(rep, s0, i0)
        law = final_size_law(edges, s0, i0, beta, gamma, npop)
        jobs = [(s0, i0, beta, gamma, npop, n // nchunks, (seed + 97 * k) % 2 ** 31) for k in range(nchunks)]
        finals, finalI = [], []
        for fs, fi in mc.pool_map(sir_runs, jobs):
            finals += fs
            finalI += fi
        ntot = len(finals)
        if any(v != 0 for v in finalI):
            rep.violation("an exact SIR run ended with infectives left although the horizon was unreachable",
                          {"instance": [s0, i0, str(beta), str(gamma), npop]}, key="law|sir|not absorbed")
        counts = {k: finals.count(k) for k in range(s0 + 1)}
        for k in range(s0 + 1):
            lo, hi = binom_region(ntot, law.get(k, Fraction(0)), alpha_cell)
            if not (lo <= counts[k] <= hi):
                rep.violation("final-size law of SIR(S0=%d,I0=%d,beta=%s,gamma=%s,N=%d): cell S_final=%d has %d of %d "
                              "runs, exact probability %.5f, acceptance region [%d, %d]" %
                              (s0, i0, beta, gamma, npop, k, counts[k], ntot, float(law.get(k, 0)), lo, hi),
                              {"instance": [s0, i0, str(beta), str(gamma), npop], "counts": counts,
                               "law": {str(a): float(b) for a, b in law.items()}}, key="law|sir|cell")
                break
        rep.count(ntot)
        rep.sample({"law_test": "SIR final size", "instance": [s0, i0, str(beta), str(gamma), npop],
                    "exact_law": {str(k): str(v) for k, v in sorted(law.items())[:4]}, "counts": counts}, limit=6)
    from scipy.stats import binom
    # (instance, variant, observation times): the scalar route on every instance; on the first instances also the per-run
    # call of the parallel route and the gridded routes -- a grid ending before absorption, a grid reaching far past it
    # (the law there is a point mass), two-sided limits that every reachable state satisfies, a death-type last step
    far = lambda inst: Fraction(60) / min(inst[1], inst[2])
    chain_all = [(inst, "scalar", [inst[3]]) for inst in chain_inst]
    c0 = chain_inst[0]
    chain_all += [(c0, "own", [c0[3]]), (c0, "grid", [c0[3] / 2, c0[3]]), (c0, "grid", [c0[3], far(c0)]),
                  (c0, "limits", [c0[3], far(c0)]), (c0, "death", [c0[3] / 2, c0[3], far(c0)])]
    if not quick:
        c1 = chain_inst[1]
        chain_all += [(c1, "grid", [c1[3] / 3, c1[3], 2 * c1[3]]), (c1, "limits", [c1[3], far(c1)]),
                      (c1, "death", [c1[3], far(c1)])]
    for ((n0, a, b, tobs), variant, times) in chain_all:
        jobs = [(n0, a, b, times, n // nchunks, (seed + 131 * k) % 2 ** 31, variant) for k in range(nchunks)]
        rows = [r for chunk in mc.pool_map(chain_runs, jobs) for r in chunk]
        ntot = len(rows)
        key = "law|chain|cell" + ("|own-generator" if variant == "own" else "" if variant == "scalar" else "|" + variant)
        what = {"instance": [n0, str(a), str(b), [str(x) for x in times]], "variant": variant}
        if any(r is None for r in rows):
            rep.violation("solve_stochast did not return one row per requested time (or did not come back within 240 s) "
                          "for the linear chain, route %s" % variant, what, key=key + "|no-return")
            rows = [r for r in rows if r is not None]
            if not rows:
                continue
        bad = None
        ps = []
        for k, tt in enumerate(times):
            # occupancy probabilities of one individual at time t (closed form; the limit a t exp(-a t) when a = b)
            af, bf, tf = float(a), float(b), float(tt)
            p1 = np.exp(-af * tf)
            p2 = af * tf * np.exp(-af * tf) if af == bf else af / (bf - af) * (np.exp(-af * tf) - np.exp(-bf * tf))
            p3 = 1 - p1 - p2
            ps.append([p1, p2, p3])
            for j, pj in enumerate((p1, p2, p3)[:len(rows[0][0]) if rows else 3]):
                col = [r[k][j] for r in rows]
                for v in range(n0 + 1):
                    pc = float(binom.pmf(v, n0, pj))
                    lo, hi = binom_region(ntot, pc, alpha_cell)
                    c = col.count(v)
                    if not (lo <= c <= hi):
                        bad = (tt, j, v, c, pc, lo, hi)
                        break
                if bad:
                    break
            if bad:
                break
        if bad:
            rep.violation("occupancy law of the linear chain (N0=%d,a=%s,b=%s, route %s) at t=%s: compartment %d value %d has "
                          "%d of %d runs, exact probability %.5f, region [%d, %d]"
                          % ((n0, a, b, variant) + bad[:4] + (len(rows),) + bad[4:]), what, key=key)
        rep.count(ntot)
        rep.distinct(("law-chain", variant, n0, str(a), str(b), tuple(str(x) for x in times)))
        rep.sample({"law_test": "linear chain occupancy, route " + variant, "instance": what["instance"], "p": ps,
                    "mean_observed_at_last_time": [float(np.mean([r[-1][j] for r in rows])) for j in range(len(rows[0][0]))]
                    if rows else None}, limit=8)


def run(rep, tier, seed):
    quick = tier == "quick"
    n = 48 if quick else 900
    jobs = [(seed % 100000 + 5, i, {"checkdraws": True, "plan_filter": exact_raw, "max_steps": 150 if quick else 300, "extend": 0.3})
            for i in range(n)]
    results = mc.pool_map(jc.model_worker, jobs)
    for r in results:
        # crashes etc. are C04's -- except in the runs made after the model object was extended: there a step that cannot
        # even be written down (a count vector shorter than the event list, an index error) means that an event of the
        # extended model is given no clock at all
        r["findings"] = [f for f in r["findings"] if f.get("plan", {}).get("after_add")]
        for f in r["findings"]:
            f["what"] = "after the model was extended: " + f["what"]
    acc, _ = judge(rep, results, {"draws-or-walk"}, "C05", python_findings=True)
    nfr = rep.cov.get("event_kinds", {}).get("FR", 0)
    rep.cov["exact_steps_with_validated_draws"] = nfr
    if nfr < 200 and not rep.violations:
        raise report.Machinery("too few exact steps validated (%d)" % nfr)
    law_tests(rep, tier, seed)
    rep.assume("numpy's exponential sampler is an exponential sampler (first-reaction theorem then gives the law)")
    rep.assume("exact binomial acceptance regions, Bonferroni over all cells: false alarm < 1e-8 per run")
    rep.cov["models_extended_after_simulation"] = sum(1 for r in results if r.get("extended"))   # same object: add_event / add_transition / add_birth_death, then simulated again
    rep.rule("mechanism: %d random event models x 3-4 exact runs, every step's draws validated by TLC; law: SIR "
             "final size and linear-chain occupancy against exact laws" % n)


def selftest(seed):
    from checks import selftest as st
    return st.run([st.jump])
