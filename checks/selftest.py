"""Demonstrations that the trace specifications are bound to what is recorded (DESIGN 4.6): a small valid trace is
accepted, and each single-field corruption of it is rejected by TLC.  `./check <ID> --selftest`."""
import copy
import json
import os
import re
import shutil

from engine import tlc

AT3 = re.compile(r'<<"AT", (\d+), (\d+), (\d+)>>')
AT2 = re.compile(r'<<"AT", (\d+), (\d+)>>')


def _run(module, cfg, trace, cfgtext=None):
    d = tlc.scratch_dir("selftest_")
    try:
        path = os.path.join(d, "t.json")
        with open(path, "w") as f:
            json.dump(trace, f)
        if cfgtext is not None:
            cfg = os.path.join(d, "c.cfg")
            with open(cfg, "w") as f:
                f.write(cfgtext)
        return tlc.run(module, cfg=cfg, workers=1, env={"TRACE_FILE": path}, timeout=300, deadlock=False)
    finally:
        shutil.rmtree(d, ignore_errors=True)


def _accepted3(res, tid, need):
    got = max((int(l) for t, l, n in AT3.findall(res.out) if int(t) == tid), default=0)
    return got >= need and not res.invariant_violated


def _report(name, cases):
    ok = True
    for label, accepted, want in cases:
        good = accepted == want
        ok &= good
        print("%-14s %-55s %s (%s)" % (name, label, "accepted" if accepted else "rejected", "as required" if good else "WRONG"))
    return ok


def integrator():
    from checks import detcommon as dc
    ref = [[1000, 2000], [1100, 1900], [1250, 1700]]
    base = {"entry": "integrateFuncJac", "method": "lsoda", "fullOutput": False, "includeOrigin": True, "nt": 2, "tol": 3,
            "scale": 1000, "closed": False, "sumtol": 6, "ref": ref,
            "events": [{"ev": "Setup", "rhs": "ok", "jac": "ok"},
                       {"ev": "Step"}, {"ev": "Append", "rows": [ref[0], [1101, 1899]]},
                       {"ev": "Step"}, {"ev": "Append", "rows": [ref[0], [1101, 1899], [1250, 1701]]},
                       {"ev": "Return", "rows": [ref[0], [1101, 1899], [1250, 1701]]}]}
    variants = [("unchanged trace", base, True)]
    v = copy.deepcopy(base); v["events"][5]["rows"][1], v["events"][5]["rows"][2] = v["events"][5]["rows"][2], v["events"][5]["rows"][1]
    variants.append(("two returned rows swapped", v, False))
    v = copy.deepcopy(base); v["events"][5]["rows"][2][0] += 10
    variants.append(("one returned value off by more than the tolerance", v, False))
    v = copy.deepcopy(base); v["events"][5]["rows"] = v["events"][5]["rows"][:2]
    variants.append(("last row dropped", v, False))
    v = copy.deepcopy(base); v["events"][4]["rows"][1] = [1250, 1701]
    variants.append(("an earlier row overwritten by the current state (aliasing)", v, False))
    v = copy.deepcopy(base); v["events"][0]["jac"] = "transposed"
    variants.append(("integrator set up with the transposed Jacobian", v, False))
    cases = []
    for label, tr, want in variants:
        res = _run("TR_Integrator", None, {"calls": [tr]}, cfgtext=dc.TR_CFG)
        cases.append((label, _accepted3(res, 1, len(tr["events"]) + 1), want))
    return _report("TR_Integrator", cases)


def rng():
    cfgs = [{"name": c, "draws": c != "N", "continuous": c == "A"} for c in ("A", "B", "N")]
    base = {"seeds": [1, 2], "configs": cfgs, "sessions": [{"events": [
        {"ev": "Seed", "s": 1, "st": 1}, {"ev": "Run", "c": "A", "dig": 2, "st": 3, "foreign": 0, "nonglobal": 0, "mean": "na", "cont": True},
        {"ev": "Seed", "s": 2, "st": 4}, {"ev": "Run", "c": "A", "dig": 5, "st": 6, "foreign": 0, "nonglobal": 0, "mean": "na", "cont": True},
        {"ev": "Seed", "s": 1, "st": 1}, {"ev": "Run", "c": "A", "dig": 2, "st": 3, "foreign": 0, "nonglobal": 0, "mean": "ok", "cont": True}]}]}
    variants = [("unchanged session", base, True)]
    v = copy.deepcopy(base); v["sessions"][0]["events"][5]["dig"] = 7
    variants.append(("same seed, same calls, different output", v, False))
    v = copy.deepcopy(base); v["sessions"][0]["events"][3]["dig"] = 2
    variants.append(("different seed, identical continuous output", v, False))
    v = copy.deepcopy(base); v["sessions"][0]["events"][5]["foreign"] = 1
    variants.append(("a non-global generator created during a serial call", v, False))
    v = copy.deepcopy(base); v["sessions"][0]["events"][5]["st"] = 9
    variants.append(("generator state after the call not reproducible", v, False))
    v = copy.deepcopy(base); v["sessions"][0]["events"][5]["mean"] = "bad"
    variants.append(("reported mean is not the mean of the runs", v, False))
    cases = []
    for label, tr, want in variants:
        res = _run("TR_Rng", "TR_Rng", tr)
        cases.append((label, _accepted3(res, 1, len(tr["sessions"][0]["events"]) + 1), want))
    return _report("TR_Rng", cases)


def abc():
    part = {"cost": 1, "prior": True, "w": "ok", "recomputed": "ok"}
    base = {"N": 2, "maxgen": 2, "maxrank": 6, "mode": "quantile", "tollist": [], "events": [
        {"ev": "Start", "tol": 5, "n": 2}, dict(part, ev="Accept", cost=3), dict(part, ev="Accept", cost=2),
        {"ev": "EndGen", "next": 3}, dict(part, ev="Accept", cost=1), dict(part, ev="Accept", cost=2),
        {"ev": "EndGen", "next": -1},
        {"ev": "Final", "finaltol": 3, "parts": [dict(part, cost=1), dict(part, cost=2)]}]}
    variants = [("unchanged session", base, True)]
    v = copy.deepcopy(base); v["events"][4]["cost"] = 3
    variants.append(("accepted particle with cost = tolerance", v, False))
    v = copy.deepcopy(base); v["events"][1]["prior"] = False
    variants.append(("accepted particle outside the prior support", v, False))
    v = copy.deepcopy(base); v["events"][2]["recomputed"] = "bad"
    variants.append(("stored distance differs from the recomputed cost", v, False))
    v = copy.deepcopy(base); v["events"][5]["w"] = "bad"
    variants.append(("weight not positive and finite", v, False))
    v = copy.deepcopy(base); v["events"][3]["next"] = 6
    variants.append(("quantile tolerance above every accepted distance (increasing)", v, False))
    v = copy.deepcopy(base); v["events"][7]["parts"][0]["cost"] = 2
    variants.append(("posterior after the call is not the last generation", v, False))
    # a fresh run on the used object with a population of one: its posterior holds one particle, of that run
    again = [{"ev": "Restart", "tol": 4, "n": 1}, dict(part, ev="Accept", cost=2), {"ev": "EndGen", "next": -1},
             {"ev": "Final", "finaltol": 4, "parts": [dict(part, cost=2)]}]
    v = copy.deepcopy(base); v["events"] += copy.deepcopy(again)
    variants.append(("unchanged session followed by a fresh smaller run", v, True))
    v = copy.deepcopy(base); v["events"] += copy.deepcopy(again); v["events"][-1]["parts"].append(dict(part, cost=1))
    variants.append(("a particle of the earlier run still exposed after the fresh run", v, False))
    v = copy.deepcopy(base); v["mode"] = "list"; v["tollist"] = [5, 3]
    variants.append(("tolerance list followed entry by entry", v, True))
    v = copy.deepcopy(base); v["mode"] = "list"; v["tollist"] = [5, 2]
    variants.append(("second generation not under the second entry of the user's list", v, False))
    cases = []
    for label, tr, want in variants:
        res = _run("TR_Abc", "TR_Abc", tr)
        got = max((int(a) for a, b in AT2.findall(res.out)), default=0)
        cases.append((label, got >= len(tr["events"]) + 1 and not res.invariant_violated, want))
    return _report("TR_Abc", cases)


def fit():
    cfg = {"model": "SIS", "class": "Square", "start": "generating", "box": "tight", "free": [1, 2]}
    good = {"lb": [0, 0], "ub": [2, 2], "result": [1, 1], "costStart": 1, "costResult": 1, "noiseFree": True, "atGenerating": True}
    variants = [("unchanged outcome", good, True)]
    v = dict(good, result=[3, 1], ub=[2, 2]); variants.append(("one coordinate above its upper bound", v, False))
    v = dict(good, costResult=2); variants.append(("result worse than the start", v, False))
    v = dict(good, atGenerating=False); variants.append(("generating parameters not returned", v, False))
    cases = []
    for label, o, want in variants:
        res = _run("MC_Fit", "TR_Fit", {"outcomes": [{"cfg": cfg, "outcome": o}]})
        cases.append((label, _accepted3(res, 1, 2), want))
    return _report("MC_Fit/TSpec", cases)


def run(which):
    ok = True
    for f in which:
        ok &= f()
    print("selftest %s" % ("passed" if ok else "FAILED"))
    return 0 if ok else 2


def jump():
    """a real recorded session of a small closed model: accepted; single-field corruptions: rejected"""
    import random
    from checks import jumpcommon as jc
    from harness import record_jump as rj
    rng = random.Random(4242)
    while True:
        defn, theta, x0, lims = rj.random_jump_model(rng, closed=True, limits=False)
        if defn.sy.ns >= 2 and len(defn.events()) >= 2 and sum(x0) >= 10:
            break
    m, events = rj.make_model(defn, theta, x0, lims, rng)
    plan = [{"exact": True, "grid": None}, {"exact": True, "grid": "array"}]
    runs = rj.perform(m, defn, theta, x0, plan, rng, 777, max_steps=40)
    traces = []
    for r in runs:
        tr, finding, discard = rj.to_trace_run(r, defn)
        if tr and not finding and not discard:
            traces.append(tr)
    if len(traces) < 2:
        print("selftest could not record its base traces")
        return False
    d = tlc.scratch_dir("selftest_jump_")
    try:
        path = os.path.join(d, "trace.json")
        rj.trace_file(defn, events, theta, lims, traces, path)
        with open(path) as f:
            base = json.load(f)
        runs_key = next(k for k, v in base.items() if isinstance(v, list) and v and isinstance(v[0], dict) and "events" in v[0])

        def validate(doc):
            p2 = os.path.join(d, "t2.json")
            with open(p2, "w") as f:
                json.dump(doc, f)
            prog, res = jc.validate(p2, d)
            return [(prog.get(t, (0, 1))[0] >= prog.get(t, (0, 1))[1]) and not res.invariant_violated
                    for t in range(1, len(doc[runs_key]) + 1)]

        cases = [("unchanged raw path", validate(base)[0], True), ("unchanged gridded run", validate(base)[1], True)]

        def first(doc, tid, kind):
            return next(e for e in doc[runs_key][tid]["events"] if e["ev"] == kind and e.get("ok", True))
        v = copy.deepcopy(base); first(v, 0, "FR")["xa"][0] += 1
        cases.append(("state after a step off by one individual", validate(v)[0], False))
        v = copy.deepcopy(base); e = first(v, 0, "FR"); k = e["counts"].index(1); e["counts"][k] = 0; e["counts"][(k + 1) % len(e["counts"])] = 1
        cases.append(("step attributed to another event", validate(v)[0], False))
        v = copy.deepcopy(base); e = first(v, 0, "FR"); e["counts"] = [c * 2 for c in e["counts"]]
        cases.append(("two firings in one exact step", validate(v)[0], False))
        v = copy.deepcopy(base); e = first(v, 0, "FR"); e["draws"][0]["scale"] = [e["draws"][0]["scale"][1], e["draws"][0]["scale"][0]]
        cases.append(("exponential clock drawn with the reciprocal scale", validate(v)[0], False))
        v = copy.deepcopy(base); g = next(e for e in v[runs_key][1]["events"] if e["ev"] == "Gridded"); g["rows"][-1][0] += 1
        cases.append(("gridded row differs from the path state at that time", validate(v)[1], False))
        v = copy.deepcopy(base); g = next(e for e in v[runs_key][1]["events"] if e["ev"] == "Gridded"); g["rows"] = g["rows"][:-1]
        cases.append(("one requested time missing from the gridded output", validate(v)[1], False))
        return _report("TR_Jump", cases)
    finally:
        shutil.rmtree(d, ignore_errors=True)
