"""./check <ID> [--tier quick|thorough] [--replay path] [--selftest]"""
import argparse
import importlib
import os
import sys

from engine import report, repo


def main():
    ap = argparse.ArgumentParser()
    ap.add_argument("prop")
    ap.add_argument("--tier", default=os.environ.get("VERIF_TIER", "quick"), choices=["quick", "thorough"])
    ap.add_argument("--replay", default=None)
    ap.add_argument("--selftest", action="store_true")
    a = ap.parse_args()
    seed = int(os.environ.get("VERIF_SEED", "20260928") or 0)
    prop = a.prop.upper()

    def body():
        try:
            repo.activate()
        except Exception as ex:
            raise report.Machinery(str(ex))
        mod = importlib.import_module("checks." + prop.lower())
        if a.selftest:
            return mod.selftest(seed)
        if a.replay:
            return mod.replay(a.replay)
        rep = report.Report(prop, a.tier, seed, level=getattr(mod, "LEVEL", "model_checking"))
        mod.run(rep, a.tier, seed)
        return rep.finish()

    report.main_wrapper(body)


if __name__ == "__main__":
    main()
