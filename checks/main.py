"""./check <ID> [--tier quick|thorough] [--replay path] [--selftest]"""
import argparse
import importlib
import os
import sys

from engine import report, repo


def generic_replay(prop, path):
    """Replay for checks without a case-level replayer: every run is a deterministic function of (tier, seed), which the
    replay file's name records; the run is repeated with both (evidence and replay files go to a scratch directory) and the
    recorded violation counts as reproduced when a violation with the same classifying key occurs again."""
    import json
    import re
    import shutil
    import subprocess
    import tempfile
    with open(path) as f:
        doc = json.load(f)
    m = re.search(r"violation_(quick|thorough)_(\d+)_\d+\.json$", os.path.basename(path))
    if not m:
        raise report.Machinery("cannot tell tier and seed from the replay file name %s" % path)
    tier, seed = m.group(1), m.group(2)
    out = tempfile.mkdtemp(prefix="pygomverif_replay_", dir=os.environ.get("TMPDIR", "/tmp"))
    try:
        env = dict(os.environ, VERIF_SEED=seed, VERIF_OUT=out)
        env.pop("PYGOM_SRC", None)
        subprocess.run([os.path.join(report.VERIF, "check"), prop, "--tier", tier], env=env, stdout=subprocess.PIPE,
                       stderr=subprocess.STDOUT, text=True)
        ev_path = os.path.join(out, "evidence", prop + ".json")
        keys = {}
        if os.path.exists(ev_path):
            with open(ev_path) as f:
                keys = json.load(f)["coverage"].get("violation_keys", {})
    finally:
        shutil.rmtree(out, ignore_errors=True)
    if str(doc.get("key")) in keys:
        print("VIOLATION property=%s replay=%s" % (prop, path))
        print("  reproduced (%d violations with key %s): %s" % (keys[str(doc.get("key"))], doc.get("key"), str(doc.get("what"))[:400]))
        return 1
    print("not reproduced: no violation with key %s in a re-run of tier %s with seed %s" % (doc.get("key"), tier, seed))
    return 0


def main():
    ap = argparse.ArgumentParser()
    ap.add_argument("prop")
    ap.add_argument("--tier", default=os.environ.get("VERIF_TIER", "quick"), choices=["quick", "thorough"])
    ap.add_argument("--replay", default=None)
    ap.add_argument("--selftest", action="store_true")
    a = ap.parse_args()
    seed = int(os.environ.get("VERIF_SEED", "20260928") or 0)
    prop = a.prop.upper()

    def body():
        try:
            repo.activate()
        except Exception as ex:
            raise report.Machinery(str(ex))
        mod = importlib.import_module("checks." + prop.lower())
        if a.selftest:
            if not hasattr(mod, "selftest"):
                print("%s has no trace-validation step to corrupt (modes G / O only): no selftest" % prop)
                return 0
            return mod.selftest(seed)
        if a.replay:
            if hasattr(mod, "replay"):
                return mod.replay(a.replay)
            return generic_replay(prop, a.replay)
        rep = report.Report(prop, a.tier, seed, level=getattr(mod, "LEVEL", "model_checking"))
        mod.run(rep, a.tier, seed)
        return rep.finish()

    report.main_wrapper(body)


if __name__ == "__main__":
    main()
