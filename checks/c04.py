"""C04 -- every simulated path is a legal walk of the model's events.

E  MC_Jump instances (closed SIR exact / tau, SIR with births and an upper limit, single event, single
   state with magnitude 2, multi-transition with two-sided limits): WalkLaw, TimeStrict,
   ExactIsOneEventPerStep, StopSound, Terminates (liveness under weak fairness).
A  raw and gridded runs of solve_stochast on random bounded-rate event models, recorded attempt by attempt
   from outside and validated by TLC against TR_Jump with V recomputed by the specification.
"""
from checks import modelcommon as mc, jumpcommon as jc

MY_LABELS = {"walk", "stop", "return", "draws-or-walk", "other"}


def judge(rep, results, labels, prop_note, python_findings=True):
    from engine import report
    tot_acc = tot_rej = 0
    for r in results:
        if r.get("machinery"):
            raise report.Machinery("TLC failed while validating model %d: %s" % (r["idx"], r["machinery"]))
        rep.count(r["runs"])
        rep.traces(r["accepted"])
        rep.cov["states"] += r["states"]
        rep.cov["transitions"] += r["steps"]
        tot_acc += r["accepted"]
        model = {"definition": r["describe"], "theta": r["theta"], "x0": r["x0"], "lims": r["lims"]}
        if python_findings:
            for f in r["findings"]:
                rep.violation("%s: %s" % (f["what"], f["detail"]), {"model": model, "finding": f},
                              key="python|" + f["what"] + "|" + shape_key(r))
        for rej in r["rejected"]:
            lab = rej["label"]
            if lab in labels or (set(lab.split("+")) & set(labels)):
                tot_rej += 1
                rep.violation("run rejected by TR_Jump at event %s (%s): %s" %
                              (rej.get("at"), lab, str(rej.get("event"))[:300]),
                              {"model": model, "rejection": rej}, key="tlc|" + lab + "|" + shape_key(r))
        for k, v in r["kinds"].items():
            rep.cov.setdefault("event_kinds", {})
            rep.cov["event_kinds"][k] = rep.cov["event_kinds"].get(k, 0) + v
        rep.cov["discarded_runs"] = rep.cov.get("discarded_runs", 0) + r["discarded"]
        if r["accepted"]:
            rep.distinct(("model", r["idx"]))
        if r.get("sample"):
            rep.sample({"model": model, "run": r["sample"]}, limit=2)
    return tot_acc, tot_rej


def shape_key(r):
    d = r["describe"]
    ne = len(d["procs"])
    ns = len(d["states"])
    return ("single-event" if ne == 1 else "multi-event") + "/" + ("single-state" if ns == 1 else "multi-state")


def run(rep, tier, seed):
    quick = tier == "quick"
    jc.run_mc_jump(rep, tier)
    n = 48 if quick else 900
    jobs = [(seed % 100000, i, {"checkdraws": False, "max_steps": 120 if quick else 250, "extend": 0.4}) for i in range(n)]
    results = mc.pool_map(jc.model_worker, jobs)
    for r in results:      # a failure while gridding a finished path belongs to C15
        r["findings"] = [f for f in r["findings"] if f.get("stage") != "gridding"]
    acc, _ = judge(rep, results, MY_LABELS | {"invariant:StopSound"}, "C04")
    shapes = {}
    for r in results:
        shapes[shape_key(r)] = shapes.get(shape_key(r), 0) + 1
    rep.cov["model_shapes"] = shapes
    rep.assume("wrappers on simulate.firstReaction / tauLeap see every attempt of SimulateOde._jump")
    rep.assume("a run slower than 20 s that still advances time is discarded, not judged")
    rep.cov["models_extended_after_simulation"] = sum(1 for r in results if r.get("extended"))   # same object: add_event / add_transition / add_birth_death, then simulated again
    rep.rule("%d random event models x 8 runs (exact/tau, raw/gridded, fixed tau, epsilon); a run is validated "
             "event by event by TLC; models are distinct by seed" % n)
    if acc == 0 and not rep.violations and not rep.known_hits:
        from engine import report
        raise report.Machinery("no run was accepted (vacuous)")


def selftest(seed):
    from checks import selftest as st
    return st.run([st.jump])
