"""X01 (beyond the listed properties, not in MANIFEST.json) -- decomposition of an ODE-defined model into processes.

E  Decompose.tla: for every definition reachable in MC_ModelDef, decomposing Ode(D) monomial by monomial into
   between-state transitions, births and deaths and reading the processes back gives Ode(D) again, with positive rates.
O  random compartmental process sets (single T / B / D transitions, linear / mass-action / normalised / quadratic rates,
   numeric coefficients) are handed to PyGOM as explicit ODE terms only; get_unrolled_obj() must give a model whose ODE is
   identically the specification's Ode of the process set (the law of the decomposition, whatever processes it chooses).
Results go to /verif/extras/X01.json; nothing here is claimed in the manifest.
"""
import json
import os
import random
import traceback

from checks import modelcommon as mc
from engine import gen, report, tlc

LEVEL = "exploration"


def worker(args):
    import shutil
    from harness import build, oracle_model as om
    seed, ids = args
    d = tlc.scratch_dir("x01_")
    out = []
    try:
        items, jobs = [], []
        for i in ids:
            rng = random.Random((seed << 20) + i)
            defn = gen.random_defn(rng, ns=rng.randint(2, 4), np_=rng.randint(1, 4), ne=rng.randint(1, 5),
                                   shapes=["linear", "mass", "norm", "quad", "const"], allow_odes=False, allow_derived=False,
                                   range_style=False, symbolic_mag=False, integer_mag=False, max_trs=1)
            for p in defn.procs:
                p["route"] = "ODE"
            items.append((i, defn))
            jobs.append(defn.to_json(i, want=[]))
        outs, _ = om.run_tlc_oracle(jobs, d, "x01_%d" % ids[0])
        for (i, defn), o in zip(items, outs):
            rng = random.Random((seed << 20) + i + 5)
            r = {"id": i, "describe": defn.describe(), "mism": []}
            try:
                # the documented way to define a model by ODEs: one equation per state, in state order
                from engine import codec
                from pygom import SimulateOde, Transition
                sy = defn.sy
                rhs = [{} for _ in range(sy.ns)]
                for p in defn.procs:
                    for st, eqn in build.ode_terms_of_event(sy, p):
                        rhs[st - 1] = codec.padd(rhs[st - 1], eqn)
                style = rng.randrange(6)
                odel = [Transition(origin=sy.states[i], equation=codec.render(sy, rhs[i], style, rng), transition_type="ODE")
                        for i in range(sy.ns)]
                m = SimulateOde(state=list(sy.states), param=list(sy.params), ode=odel)
                u = m.get_unrolled_obj()
                from pygom.model import ode_utils
                u._SC = ode_utils.compileCode(backend="lambda")
                r["n_transitions"] = len(u.transition_list) if hasattr(u, "transition_list") else None
                r["mism"] = om.compare_model(defn, u, o, [], ["ode"], rng, numeric=True, npoints=2, reactant=False)
            except Exception as ex:
                r["mism"].append({"key": "unroll", "kind": "raised", "detail": "".join(traceback.format_exception_only(type(ex), ex))[:300]})
            out.append(r)
    finally:
        shutil.rmtree(d, ignore_errors=True)
    return out


def run(rep, tier, seed):
    quick = tier == "quick"
    from checks.modelcommon import MC_CFG
    d = tlc.scratch_dir("x01mc_")
    try:
        cfg = os.path.join(d, "c.cfg")
        with open(cfg, "w") as f:
            f.write((MC_CFG % {"maxhist": 2 if quick else 3, "dump": "FALSE", "derivs": "FALSE"})
                    .replace("INVARIANT Dump", "INVARIANT InvDecomposeRoundTrip"))
        res = tlc.run("MC_ModelDef", cfg=cfg, workers=mc.NPROC, timeout=3000)
    finally:
        import shutil
        shutil.rmtree(d, ignore_errors=True)
    if res.invariant_violated:
        raise report.Machinery("Decompose.tla: %s violated" % res.invariant_violated)
    rep.add_tlc("MC_ModelDef + InvDecomposeRoundTrip", res, exhaustive=True)
    n = 96 if quick else 1200
    ids = list(range(n))
    results = [r for ch in mc.pool_map(worker, [(seed % 100000 + 71, ids[i:i + 8]) for i in range(0, n, 8)]) for r in ch]
    for r in results:
        rep.count()
        if r["mism"]:
            rep.violation("unrolled model differs from the ODE it was built from: %s" % r["mism"][0], {"definition": r["describe"], "mismatches": r["mism"]},
                          key="%s:%s" % (r["mism"][0]["key"], r["mism"][0]["kind"]))
        else:
            rep.traces(1)
            rep.distinct(r["id"])
    rep.sample({"definition": results[0]["describe"], "transitions_found": results[0].get("n_transitions")})
    rep.rule("%d random compartmental process sets entered as explicit ODE terms and unrolled" % n)
    # keep this out of /verif/evidence: it is not a manifest check
    os.makedirs(os.path.join(report.VERIF, "extras"), exist_ok=True)
    with open(os.path.join(report.VERIF, "extras", "X01.json"), "w") as f:
        json.dump({"violations": [{"what": v["what"], "key": v["key"]} for v in rep.violations][:50], "coverage": rep.cov}, f, indent=1, default=str)
