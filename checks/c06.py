"""C06 -- cost is the stated loss of the model trajectory against the data.

E  MC_LossWiring: every ordered selection of observed states / target parameters / target states / weight shape
   for 3 states x 3 parameters; register laws (non-targets keep the constructor's value, registers are the last
   supplied values), recipes injective, column selection = the recipe (negative control: sorted columns).
G  for every wiring of several (states x parameters) sizes TLC emits the script
     cost(v); residual(); costIV(v (+) x); cost(); residual(v); residualIV(); costIV(x only); cost()
   with the registers each call must use and the recipes (row i <-> time i, column j <-> j-th named state, source
   of each weight / spread value); random longer histories come from TLC simulation.  Each behaviour is performed
   on a real loss object (all five classes, spreads and weights in every accepted shape) and every result is
   compared with the class's reference kernel applied to the reference trajectory of the SPECIFICATION's ODE.
"""
from checks import losscommon as lc

OPS = {"cost", "residual", "costIV", "residualIV"}


def run(rep, tier, seed):
    lc.run_loss(rep, tier, seed, "C06", OPS)
    rep.rule("script C06 on every (quick: a sample of the) wiring of each size + simulated histories; a case is distinct "
             "by size, wiring and call sequence; square-loss cost at the generating parameters additionally bounded by "
             "1e-10 n p (1 + max|y|)^2")


def replay(path):
    return lc.replay_file(path, OPS)
