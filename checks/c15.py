"""C15 -- gridded stochastic output agrees with the underlying path.

E  GridLaw on every explored path of the MC_Jump instances (row at g2 = row at g1 + V . counts of (g1, g2]).
A  for runs with requested output times the recorder keeps the raw path of THE SAME run; TR_Jump requires one
   row per requested time, first row = initial state, and in exact mode row k = RowAt(path, g_k), counts =
   CountsIn(path, g_k, g_k+1) per event, consecutive rows differing by V . counts.
"""
from checks import modelcommon as mc, jumpcommon as jc
from checks.c04 import judge


def grid_only(p):
    return p["grid"] is not None


def run(rep, tier, seed):
    quick = tier == "quick"
    jc.run_mc_jump(rep, tier, only=("sir_exact", "sir_tau", "mt_exact"))
    n = 64 if quick else 1200
    jobs = [(seed % 100000 + 15, i, {"checkdraws": False, "plan_filter": grid_only, "extend": 0.3, "grid_alone": True,
                                     "max_steps": 120 if quick else 250}) for i in range(n)]
    results = mc.pool_map(jc.model_worker, jobs)
    for r in results:      # python-level findings that concern the gridding itself
        # ... and, all runs here being gridded, steps whose reported counts are not event counts (what the per-interval
        # counts are summed from)
        r["findings"] = [f for f in r["findings"] if f.get("stage") == "gridding"
                         or f.get("what", "").startswith("an exact step does not report exactly one event")]
    judge(rep, results, {"grid"}, "C15")
    up = sum(1 for r in results for rej in r["rejected"] if rej["label"] != "grid")
    rep.cov["runs_rejected_upstream"] = up
    rep.cov["of_those_table_judged_alone"] = sum(r.get("grid_alone", 0) for r in results)
    rep.assume("an event time equal to a grid time has probability 0; such runs are discarded")
    rep.cov["models_extended_after_simulation"] = sum(1 for r in results if r.get("extended"))   # same object: add_event / add_transition / add_birth_death, then simulated again
    rep.rule("%d random event models x 4 gridded runs (list / tuple / array grids, uniform and non-uniform, grids "
             "extending past the end of the dynamics, exact and tau-leap)" % n)


def selftest(seed):
    from checks import selftest as st
    return st.run([st.jump])
