"""C20 -- curvature information matches the cost it is meant to describe.

G  script  jtj(v); hessian(); costIV(v (+) x); jtj(); hessian(v)  on every wiring + simulated histories.
   jtj = sum over cells of w^2 s_k s_l with the reference sensitivities named by the recipe, symmetric, positive
   semi-definite.  hessian (square loss, unit weights) = 2 jtj + sum over cells of D1 . h_kl with the reference
   SECOND-order sensitivities of SensLayout.AugFF (whose right-hand side is the total theta-derivative of the
   first-order system).  Half of the hessian cases use models in which the parameters enter additively, so that
   GradJac and the parameter Hessian vanish identically (decided by the specification's normal forms): there the
   implementation's omission of the mixed terms (known finding) cannot explain a mismatch.
"""
from checks import losscommon as lc

OPS = {"jtj", "hessian"}


def run(rep, tier, seed):
    lc.run_loss(rep, tier, seed, "C20", OPS)
    rep.rule("script C20 on every (quick: a sample of the) wiring of each size + simulated histories; hessian mismatches "
             "are classified by the specification: mixed terms vanish identically / are present")


def replay(path):
    return lc.replay_file(path, OPS)
