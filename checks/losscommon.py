"""Shared driver for the loss layer (C06, C07, C20): LossWiring behaviours from TLC replayed into loss objects."""
import os
import random
import shutil

from checks import modelcommon as mc
from engine import tlc, report
from harness import replay_loss as rl

CFG = """SPECIFICATION %(spec)s
CONSTANTS
  NS = %(ns)d
  NP = %(np)d
  NT = %(nt)d
  NV = 2
  MaxCalls = %(maxcalls)d
  POps = {"cost", "residual", "sensitivity", "gradient", "jac", "jtj", "hessian"}
  IOps = {"costIV", "residualIV", "sensitivityIV", "jacIV"}
  DumpOn = TRUE
  DumpDepth = %(depth)d
  ScriptId = "%(script)s"
INVARIANT InvColumnsP
INVARIANT InvColumnsIV
INVARIANT InvRecipeInjective
INVARIANT InvNonTargetsKeepConstructorValue
INVARIANT InvRegistersAreLastSupplied
INVARIANT Dump
CHECK_DEADLOCK FALSE
"""


def exhaustive_design(rep):
    """E: every wiring for 3 states x 3 parameters, register laws, column selection; negative control"""
    res = tlc.run("MC_LossWiring", cfg="MC_LossWiring", workers=mc.NPROC, timeout=1800)
    if res.invariant_violated:
        raise report.Machinery("LossWiring.tla violates %s (design error)" % res.invariant_violated)
    rep.add_tlc("MC_LossWiring(NS=3, NP=3, every wiring, one call)", res, exhaustive=True)
    neg = tlc.run("MC_LossWiring", cfg="MC_LossWiring_neg", workers=2)
    if not neg.invariant_violated:
        raise report.Machinery("negative control: sorted column selection must be rejected by TLC")
    rep.cov["negative_control"] = "sorted sensitivity columns -> %s violated" % neg.invariant_violated


def gen_script(args):
    ns, np_, nt, script = args
    d = tlc.scratch_dir("mc_loss_")
    try:
        cfg = os.path.join(d, "lw.cfg")
        with open(cfg, "w") as f:
            f.write(CFG % {"spec": "SSpec", "ns": ns, "np": np_, "nt": nt, "maxcalls": 12, "depth": 99, "script": script})
        res = tlc.run("MC_LossWiring", cfg=cfg, workers=1, deadlock=False, timeout=3000, heap="6g")
    finally:
        shutil.rmtree(d, ignore_errors=True)
    if res.invariant_violated:
        raise report.Machinery("LossWiring script family violates %s" % res.invariant_violated)
    pr = res.printed()
    header = [p for p in pr if "kernels" in p]
    behs = [p for p in pr if "obs" in p]
    if not header or not behs:
        raise report.Machinery("MC_LossWiring produced no behaviours")
    return {"header": header[0], "behs": behs, "distinct": res.distinct, "generated": res.generated, "wall": res.wall,
            "depth": res.depth}


def gen_sim(args):
    ns, np_, nt, num, seed = args
    d = tlc.scratch_dir("mc_loss_")
    try:
        cfg = os.path.join(d, "lw.cfg")
        with open(cfg, "w") as f:
            f.write(CFG % {"spec": "Spec", "ns": ns, "np": np_, "nt": nt, "maxcalls": 6, "depth": 6, "script": "C06"})
        res = tlc.run("MC_LossWiring", cfg=cfg, workers=1, deadlock=False, timeout=3000, simulate="num=%d" % num,
                      depth=8, seed=seed)
    finally:
        shutil.rmtree(d, ignore_errors=True)
    if res.invariant_violated:
        raise report.Machinery("LossWiring simulation violates %s" % res.invariant_violated)
    pr = res.printed()
    header = [p for p in pr if "kernels" in p]
    behs = [p for p in pr if "obs" in p]
    return {"header": header[0], "behs": behs}


def run_loss(rep, tier, seed, script, judge_ops, sizes=None, classes=None):
    quick = tier == "quick"
    exhaustive_design(rep)
    sizes = sizes or ([(2, 2), (3, 3), (2, 3), (3, 1)] if quick else [(2, 2), (3, 3), (2, 3), (3, 2), (3, 1), (1, 2), (1, 1)])
    nt = 4
    gens = mc.pool_map(gen_script, [(ns, np_, nt, script) for ns, np_ in sizes])
    sims = mc.pool_map(gen_sim, [(ns, np_, nt, 12 if quick else 120, (seed + 7 * i) % 1000003) for i, (ns, np_) in enumerate(sizes)])
    rng = random.Random(seed)
    total, nbeh = 0, 0
    for (ns, np_), g, sm in zip(sizes, gens, sims):
        header = g["header"]
        rep.cov["tlc_runs"].append({"spec": "MC_LossWiring/SSpec script %s NS=%d NP=%d" % (script, ns, np_),
                                    "distinct_states": g["distinct"], "states_generated": g["generated"],
                                    "depth": g["depth"], "wall_s": round(g["wall"], 2), "exhaustive": True})
        rep.cov["states"] += g["distinct"] or 0
        rep.cov["transitions"] += g["generated"] or 0
        behs = g["behs"]
        cap = (450 if quick else 10 ** 9) if (ns, np_) == (2, 2) else (160 if quick else 10 ** 9)
        if len(behs) > cap:
            # stratified: keep every weight shape and both some / none selections, sample within
            rng.shuffle(behs)
            behs = behs[:cap]
        behs = behs + sm["behs"]
        rep.cov.setdefault("wirings_replayed", {})["%dx%d" % (ns, np_)] = "%d of %d" % (min(cap, len(g["behs"])), len(g["behs"]))
        npool = 4 if quick else 10
        pool = mc.pool_map(rl.prepare_model, [(ns, np_, nt, (seed % 100000) * 100 + ns * 10 + np_ + 1000 * q, False) for q in range(npool)] +
                           ([(ns, np_, nt, (seed % 100000) * 100 + ns * 10 + np_ + 1000 * q + 500, True) for q in range(2 if quick else 4)]
                            if script == "C20" else []))
        # the package's own catalogue models of this size join the pool
        from engine import catalogue
        cat = [e["name"] for e in catalogue.models() if (e["defn"].sy.ns, e["defn"].sy.np) == (ns, np_) and not e["defn"].sy.atoms]
        if cat and script != "C20":
            pool += mc.pool_map(rl.prepare_catalogue_model, [(nm, nt, (seed % 100000) * 100 + 7 * k) for k, nm in enumerate(cat)])
            rep.cov.setdefault("catalogue_models_in_pool", []).extend(n for n in cat if n not in rep.cov.get("catalogue_models_in_pool", []))
        nchunk = mc.NPROC * 2
        chunks = [behs[i::nchunk] for i in range(nchunk)]
        jobs = [(header, c, seed % 100000 + 17 * i, {"judge_ops": judge_ops, "classes": classes}, pool) for i, c in enumerate(chunks) if c]
        # a few behaviours on the default (Cython) compile back-end: one extra job per size
        ncy = 2 if quick else 6
        jobs.append((header, behs[:ncy], seed % 100000 + 991, {"judge_ops": judge_ops, "classes": classes, "cython": True}, pool))
        for out in mc.pool_map(rl.worker, jobs):
            for r in out:
                if r.get("machinery"):
                    raise report.Machinery("replay harness failed: %s" % r["machinery"])
                nbeh += 1
                n_j = sum(r.get("judged", {}).values())
                total += n_j
                rep.count(n_j)
                for op, k in r.get("judged", {}).items():
                    rep.cov.setdefault("calls_judged", {})
                    rep.cov["calls_judged"][op] = rep.cov["calls_judged"].get(op, 0) + k
                if r.get("backend"):
                    rep.cov.setdefault("backends", {})
                    rep.cov["backends"][r["backend"]] = rep.cov["backends"].get(r["backend"], 0) + 1
                if r.get("class"):
                    rep.cov.setdefault("classes", {})
                    rep.cov["classes"][r["class"]] = rep.cov["classes"].get(r["class"], 0) + 1
                for op, v in r.get("maxrel", {}).items():
                    rep.cov.setdefault("max_fraction_of_tolerance_used", {})
                    rep.cov["max_fraction_of_tolerance_used"][op] = max(rep.cov["max_fraction_of_tolerance_used"].get(op, 0.0), v)
                rep.distinct(repr((ns, np_, r["beh"]["obs"], r["beh"]["tp"], r["beh"]["ts"], r["beh"]["wk"],
                                   [(c["op"], c["arg"]) for c in r["beh"]["calls"]])))
                for f in r["findings"]:
                    yield_finding(rep, r, f, ns, np_)
                if nbeh == 1:
                    rep.sample({"wiring": {k: r["beh"][k] for k in ("obs", "tp", "ts", "wk")}, "model": r.get("model"),
                                "calls": [(c["op"], c["arg"]) for c in r["beh"]["calls"]], "class": r.get("class")})
    rep.traces(nbeh)
    rep.cov["behaviours_replayed"] = nbeh
    rep.assume("reference engine: scipy solve_ivp DOP853 (rtol 1e-12, atol 1e-13) on the specification's right-hand sides "
               "(Ode, AugP, AugIV, AugFF of SensLayout) for the model at hand")
    rep.assume("reference kernels: scipy.stats log densities in standard parameterisation (cost); chain rule through the "
               "specification's D1 normal forms (LossKernel.tla)")
    rep.assume("tolerances: cost / residual 1e-6, gradient / jac / jtj / hessian 1e-5 relative to the sum of |terms| (+1e-8)")
    if total == 0 and not rep.violations and not rep.known_hits:
        raise report.Machinery("no call was judged (vacuous)")


def yield_finding(rep, r, f, ns, np_):
    wiring = {k: r["beh"][k] for k in ("obs", "tp", "ts", "wk")}
    obs = wiring["obs"]
    tp = wiring["tp"]["seq"] if wiring["tp"]["some"] else []
    ts = wiring["ts"]["seq"] if wiring["ts"]["some"] else []
    ordered = (obs == sorted(obs)) and (tp == sorted(tp)) and (ts == sorted(ts))
    key = "%s|%s|%s|%s|%s" % (f["what"], f["op"], f.get("class"), f.get("shape"), "ordered" if ordered else "permuted")
    if f.get("coincidence"):
        key = "call raised|%s|length-coincidence" % f["op"]
    if f["op"] == "hessian" and f["what"] == "value":
        key = "value|hessian|%s" % ("mixed-terms-vanish" if f.get("mixed_terms_vanish") else "mixed-terms-present")
    rep.violation("%s %s (%s, %s): %s" % (f["op"], f["what"], f.get("class"), f.get("shape"), f["detail"]),
                  {"sizes": [ns, np_], "wiring": wiring, "model": r.get("model"), "theta0": r.get("theta0"), "x00": r.get("x00"),
                   "grid": r.get("grid"), "class": r.get("class"), "weights_kind": r.get("weights_kind"),
                   "spread_kind": r.get("spread_kind"), "calls": r["beh"]["calls"], "finding": f,
                   "regen": r.get("regen"), "behaviour": r.get("beh_full")}, key=key)


def replay_file(path, judge_ops):
    """./check <ID> --replay <path>: regenerate the model of the recorded case and perform the recorded behaviour again"""
    import json
    with open(path) as f:
        d = json.load(f)
    rp = d["replay"]
    g = rp["regen"]
    hdr = gen_script((g["ns"], g["np"], g["nt"], "C06"))["header"]
    prep = rl.prepare_model((g["ns"], g["np"], g["nt"], g["mseed"], g["additive"]))
    ref = rl.Reference(prep["defn"], prep["out"], prep["theta0"], prep["x00"], prep["grid"])
    r = rl.replay_behaviour(hdr, rp["behaviour"], g["bseed"], {"judge_ops": judge_ops}, prep, ref)
    for fnd in r["findings"]:
        print("VIOLATION property=%s replay=%s" % (d["property"], path))
        print("  %s %s: %s" % (fnd["op"], fnd["what"], fnd["detail"]))
    print("replayed %d calls, %d findings" % (r["calls"], len(r["findings"])))
    return 1 if r["findings"] else 0
