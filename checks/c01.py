"""C01 -- a model definition is assembled into exactly the equations it describes.

E  MC_ModelDef: every API history in small scope; Ode = V.R + explicit terms, reactant support.
G  every live state TLC visited (all routes, constructor lists and add_* calls, evaluators exercised
   between the calls) is performed on a real SimulateOde and compared with the state's expected normal forms.
O  random definitions at the property's full size: specification-derived ODE, V, R, explicit terms,
   reactant matrix against PyGOM's symbolic reports (identities) and compiled evaluators (both back-ends).
"""
from checks import modelcommon as mc
from harness import oracle_model as om

ROUTES_C01 = {"E", "T", "ODE"}


def c01_hist(st, header):
    """every route is in scope: the statement covers models built from events, transitions and
    birth/death processes alike (the route defects D13/D14 are repaired)"""
    return True
    for h in st["hist"]:
        menu = header["menu"][h["k"] - 1]
        if h["route"] == "E1" and len(menu["trs"]) == 1:
            continue
        if h["route"] == "ODE" and menu["kind"] == "ode":
            continue
        if h["route"] in ("E", "T"):
            continue
        return False
    return True


def judge(rep, results, prop_keys, what):
    for r in results:
        rep.count()
        bad = [m for m in r["mism"] if m["key"] in prop_keys]
        if bad:
            rep.violation("%s: %s" % (what, bad[0]), {"case": r.get("describe", r.get("hist")), "mismatches": bad},
                          key=bad[0]["key"] + ":" + bad[0]["kind"])


def run(rep, tier, seed):
    quick = tier == "quick"
    rep.assume("sympy is used only to evaluate PyGOM's symbolic output at rational points (30 digits)")
    rep.assume("the harness renders rate strings from spec terms; nothing is parsed on the oracle side")
    # E + G
    maxhist = 2 if quick else 3
    mc.run_mc_modeldef(rep, maxhist, dump=False)
    _, header, states = mc.run_mc_modeldef(rep, maxhist, dump=True)
    mine = [s for s in states if c01_hist(s, header)]
    if quick:
        mine = mine[::2]
    res = mc.replay_states(header, mine, om.C01_KEYS, seed)
    rep.traces(len(res))
    for r in res:
        rep.distinct(("G", str(r["hist"])))
    judge(rep, res, set(om.C01_KEYS) | {"reactant", "build", "events"}, "replayed TLC state disagrees")
    if mine:
        rep.sample({"mode": "G", "history": mine[-1]["hist"], "expected_ode": mine[-1]["ode"]})
    # O
    n = 150 if quick else 3000
    opts = {"keys": om.C01_KEYS, "routes": ["E", "E1", "T", "LT", "LBo", "LBd", "LD"],
            "cython_every": 50 if quick else 75}
    results = mc.run_oracle(n, seed, opts)
    spec_bad = [r for r in results if not (r["spec"]["wf"] and r["spec"]["odeIsVR"] and r["spec"]["support"])]
    if spec_bad:
        from engine import report
        raise report.Machinery("specification identity Ode = V.R + pure fails on %s" % spec_bad[0]["describe"])
    for r in results:
        rep.distinct(("O", r["id"], r["ns"], r["np"], r["ne"]))
    judge(rep, results, set(om.C01_KEYS) | {"reactant", "build"}, "random definition disagrees")
    rep.traces(len(results))
    rep.sample({"mode": "O", "definition": results[0]["describe"]})
    rep.rule("G: all live states of MC_ModelDef (MaxHist=%d) restricted to event routes, each replayed into a real "
             "SimulateOde; O: %d random definitions (1..5 states/params, 0..5 events of 1..3 T/B/D transitions, "
             "six rate shapes, symbolic magnitudes, derived parameters, ODE terms, range names); a case is "
             "distinct by its API history / definition id" % (maxhist, n))
    rep.cov["oracle_models"] = n
    rep.cov["replayed_states"] = len(res)
    rep.cov["cython_models"] = sum(1 for r in results if r.get("cython"))
    rep.cov["size_histogram"] = {str(k): sum(1 for r in results if r["ne"] == k) for k in range(6)}
