"""C10 -- closed compartmental models conserve the total population.

symbolic   E: InvClosedConserves on every state of MC_ModelDef; O: random transition-only definitions with
           arbitrary rate shapes (atoms included) and numeric / symbolic magnitudes: the specification's
           ClosedConserves holds and the components PyGOM reports sum to the zero function.
deterministic  A: closed random and catalogue models through every deterministic entry point; TR_Integrator
           requires |sum(row) - sum(x0)| <= tol on every observed row.
stochastic E: Conservation on the closed MC_Jump instances; A: TR_Jump's TraceConservation (exact equality of
           the total) on every recorded state of exact and tau-leap runs of closed random event models.
"""
from checks import modelcommon as mc, jumpcommon as jc, detcommon as dc
from checks.c04 import judge as judge_jump
from checks.c02 import judge as judge_det
from engine import report, catalogue
from harness import oracle_model as om


def run(rep, tier, seed):
    quick = tier == "quick"
    # symbolic clause
    mc.run_mc_modeldef(rep, 2 if quick else 3, dump=False)
    n = 60 if quick else 1200
    opts = {"keys": ["ode"], "routes": ["E", "E1", "T", "LT"], "conservation": True, "numeric": False,
            "gen": {"closed": True, "allow_odes": False}}
    results = mc.run_oracle(n, seed + 10, opts)
    nclosed = 0
    for r in results:
        rep.count()
        if not r["spec"]["closed"]:
            continue
        nclosed += 1
        rep.distinct(("sym", r["id"]))
        if not (r["spec"]["conserves"] and r["spec"]["colsZero"]):
            raise report.Machinery("specification: closed definition does not conserve: %s" % r["describe"])
        bad = [m for m in r["mism"] if m["key"] in ("conservation", "ode", "build")]
        if bad:
            rep.violation("closed model: %s" % bad[0], {"definition": r["describe"], "mismatches": bad},
                          key="symbolic|" + bad[0]["key"] + ":" + bad[0]["kind"])
    rep.cov["closed_definitions_symbolic"] = nclosed
    rep.traces(nclosed)
    if results:
        rep.sample({"clause": "symbolic", "definition": results[0]["describe"]})
    # deterministic clause
    cats = [i for i, m in enumerate(catalogue.models()) if m["closed"]]
    nd = 12 if quick else 200
    jobs = [(seed % 100000 + 10, i, {"catalogue": i, "quick": True}) for i in cats]
    jobs += [(seed % 100000 + 10, 200 + i, {"closed": True, "quick": True}) for i in range(nd)]
    dres = mc.pool_map(dc.det_worker, jobs)
    for r in dres:      # only the conservation clause is judged here; other rejections are C02's
        r["findings"] = []
    judge_det(rep, dres)
    rep.cov["closed_models_deterministic"] = len(dres)
    # stochastic clause
    jc.run_mc_jump(rep, tier, only=("sir_exact", "sir_tau"))
    ns = 32 if quick else 600
    jobs = [(seed % 100000 + 10, i, {"checkdraws": False, "closed": True, "max_steps": 120 if quick else 250})
            for i in range(ns)]
    sres = mc.pool_map(jc.model_worker, jobs)
    for r in sres:
        r["findings"] = []
    judge_jump(rep, sres, {"invariant:TraceConservation", "walk", "draws-or-walk"}, "C10", python_findings=False)
    rep.cov["closed_models_stochastic"] = ns
    rep.assume("deterministic clause: tolerance as in C02 times the number of states")
    rep.rule("symbolic: %d random transition-only definitions; deterministic: %d closed models x entry points; "
             "stochastic: %d closed event models x 8 runs" % (n, len(dres), ns))


def selftest(seed):
    from checks import selftest as st
    return st.run([st.integrator])
