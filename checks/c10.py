"""C10 -- closed compartmental models conserve the total population.

symbolic   E: InvClosedConserves on every state of MC_ModelDef; O: random transition-only definitions with
           arbitrary rate shapes (atoms included) and numeric / symbolic magnitudes: the specification's
           ClosedConserves holds and the components PyGOM reports sum to the zero function.
deterministic  A: closed random and catalogue models through every deterministic entry point; TR_Integrator
           requires |sum(row) - sum(x0)| <= tol on every observed row.
stochastic E: Conservation on the closed MC_Jump instances; A: TR_Jump's TraceConservation (exact equality of
           the total) on every recorded state of exact and tau-leap runs of closed random event models.
"""
from checks import modelcommon as mc, jumpcommon as jc, detcommon as dc
from checks.c04 import judge as judge_jump
from checks.c02 import judge as judge_det
from engine import report, catalogue
from harness import oracle_model as om


def fractional_worker(args):
    """closed models whose transitions move NON-INTEGER amounts (magnitudes 1/2, 3/2): the trace specification works on
    integer states, so these paths are judged here directly -- every reported state vector (raw exact, raw tau-leap,
    gridded exact) must have exactly the initial total (halves are exact in binary64)"""
    import random
    import numpy as np
    from harness import record_jump as rj
    from engine.codec import pconst
    from fractions import Fraction
    seed, idx = args
    rng = random.Random((seed << 16) + idx)
    while True:
        defn, theta, x0, lims = rj.random_jump_model(rng, closed=True, limits=False)
        if defn.sy.ns >= 2:
            break
    n = defn.sy.n
    for p in defn.procs:
        for t in p["trs"]:
            t["mag"] = pconst(rng.choice([Fraction(1, 2), Fraction(3, 2), Fraction(1), Fraction(2)]), n)
    x0 = [int(v) + 6 for v in x0]
    out = {"idx": idx, "describe": defn.describe(), "x0": x0, "bad": [], "runs": 0}
    try:
        m, _ = rj.make_model(defn, theta, x0, lims, rng)
    except Exception as ex:
        out["bad"].append({"what": "model construction raised", "detail": repr(ex)[:200]})
        return out
    # whole-number initial values are also written the way a user writes them: Python ints / an integer array
    if idx % 3 == 1:
        m.initial_values = ([int(v) for v in x0], np.float64(0))
    elif idx % 3 == 2:
        m.initial_values = (np.array(x0, dtype=int), np.float64(0))
    out["x0_form"] = ["float", "int list", "int array"][idx % 3]
    total = float(sum(x0))
    r0 = max(sum(rj.rate_float(defn, theta, x0)), 1e-6)
    T = min(5.0, 30.0 / r0)
    for exact, grid in ((True, None), (False, None), (True, np.linspace(0.0, T, 6)), (True, list(np.linspace(0.0, T, 4)))):
        np.random.seed((seed * 31 + idx * 7 + out["runs"]) % (2 ** 31))
        try:
            res = m.solve_stochast(T if grid is None else grid, 2, exact=exact, full_output=True)
        except Exception as ex:
            out["bad"].append({"what": "solve_stochast raised", "detail": repr(ex)[:200], "exact": exact, "grid": grid is not None})
            continue
        out["runs"] += 1
        for X in res[0]:
            sums = np.asarray(X, float).reshape(len(X), -1).sum(axis=1)
            if not np.all(sums == total):
                out["bad"].append({"what": "total population not conserved", "exact": exact, "grid": grid is not None,
                                   "totals": sorted(set(float(v) for v in sums))[:6], "expected": total})
                break
    return out


def run(rep, tier, seed):
    quick = tier == "quick"
    # symbolic clause
    mc.run_mc_modeldef(rep, 2 if quick else 3, dump=False)
    n = 60 if quick else 1200
    opts = {"keys": ["ode"], "routes": ["E", "E1", "T", "LT"], "conservation": True, "numeric": False,
            "gen": {"closed": True, "allow_odes": False}}
    results = mc.run_oracle(n, seed + 10, opts)
    nclosed = 0
    for r in results:
        rep.count()
        if not r["spec"]["closed"]:
            continue
        nclosed += 1
        rep.distinct(("sym", r["id"]))
        if not (r["spec"]["conserves"] and r["spec"]["colsZero"]):
            raise report.Machinery("specification: closed definition does not conserve: %s" % r["describe"])
        bad = [m for m in r["mism"] if m["key"] in ("conservation", "ode", "build")]
        if bad:
            rep.violation("closed model: %s" % bad[0], {"definition": r["describe"], "mismatches": bad},
                          key="symbolic|" + bad[0]["key"] + ":" + bad[0]["kind"])
    rep.cov["closed_definitions_symbolic"] = nclosed
    rep.traces(nclosed)
    if results:
        rep.sample({"clause": "symbolic", "definition": results[0]["describe"]})
    # deterministic clause
    cats = [i for i, m in enumerate(catalogue.models()) if m["closed"]]
    nd = 12 if quick else 200
    jobs = [(seed % 100000 + 10, i, {"catalogue": i, "quick": True}) for i in cats]
    jobs += [(seed % 100000 + 10, 200 + i, {"closed": True, "quick": True}) for i in range(nd)]
    dres = mc.pool_map(dc.det_worker, jobs)
    for r in dres:      # only the conservation clause is judged here; other rejections are C02's
        r["findings"] = []
    judge_det(rep, dres)
    rep.cov["closed_models_deterministic"] = len(dres)
    # stochastic clause
    jc.run_mc_jump(rep, tier, only=("sir_exact", "sir_tau"))
    ns = 32 if quick else 600
    jobs = [(seed % 100000 + 10, i, {"checkdraws": False, "closed": True, "max_steps": 120 if quick else 250})
            for i in range(ns)]
    sres = mc.pool_map(jc.model_worker, jobs)
    fres = mc.pool_map(fractional_worker, [(seed % 100000 + 10, i) for i in range(16 if quick else 200)])
    for r in fres:
        rep.count(r["runs"])
        for b in r["bad"]:
            rep.violation("closed model with fractional magnitudes: %s" % b, {"definition": r["describe"], "x0": r["x0"], "finding": b},
                          key="fractional|%s|exact=%s|grid=%s" % (b["what"], b.get("exact"), b.get("grid")))
    rep.cov["closed_models_fractional_magnitudes"] = len(fres)
    for r in sres:
        r["findings"] = []
    judge_jump(rep, sres, {"invariant:TraceConservation", "walk", "draws-or-walk"}, "C10", python_findings=False)
    rep.cov["closed_models_stochastic"] = ns
    rep.assume("deterministic clause: tolerance as in C02 times the number of states")
    rep.rule("symbolic: %d random transition-only definitions; deterministic: %d closed models x entry points; "
             "stochastic: %d closed event models x 8 runs" % (n, len(dres), ns))


def selftest(seed):
    from checks import selftest as st
    return st.run([st.integrator])
