"""C03 -- Jacobian, gradient and higher derivative functions are the true derivatives.

The specification differentiates its own ODE normal form (chain rule through the atoms) and defines
the tau-leap statistics from R and V; PyGOM's symbolic and compiled objects are compared with them
(G: every live state of MC_ModelDef on event routes; O: random non-symmetric definitions).
"""
from checks import modelcommon as mc
from checks.c01 import c01_hist, judge
from harness import oracle_model as om


def catalogue_worker(idx):
    """the package's own catalogue models against the derivatives of their hand transcription"""
    import random
    import shutil
    from engine import catalogue, tlc
    from pygom import common_models
    from pygom.model import ode_utils
    entry = catalogue.models()[idx]
    defn = entry["defn"]
    d = tlc.scratch_dir("cat_")
    try:
        odes = [{"kind": "ode", "st": p["st"], "eqn": p["eqn"]} for p in defn.procs]
        outs, _ = om.run_tlc_oracle([defn.to_json(idx, want=["jac", "grad", "djac", "gjac"], events=[], odes=odes)], d, "cat%d" % idx)
    finally:
        shutil.rmtree(d, ignore_errors=True)
    m = getattr(common_models, entry["factory"])()
    m._SC = ode_utils.compileCode(backend="lambda")
    mm = om.compare_model(defn, m, outs[0], [], ["ode", "jac", "grad", "djac", "gjac"], random.Random(idx), numeric=True,
                          npoints=2, reactant=False)
    return {"id": "catalogue:" + entry["name"], "describe": defn.describe(), "mism": mm, "ns": defn.sy.ns, "np": defn.sy.np, "ne": 0}


def run(rep, tier, seed):
    quick = tier == "quick"
    rep.assume("sympy is used only to evaluate PyGOM's symbolic output at rational points (30 digits)")
    rep.assume("results are compared after reshaping to the documented shape (DESIGN section 8)")
    maxhist = 2 if quick else 3
    mc.run_mc_modeldef(rep, maxhist, dump=False)
    _, header, states = mc.run_mc_modeldef(rep, maxhist, dump=True, derivs=True)
    mine = [s for s in states if c01_hist(s, header)]
    if quick:
        mine = mine[::5]
    res = mc.replay_states(header, mine, om.C03_KEYS, seed)
    rep.traces(len(res))
    for r in res:
        rep.distinct(("G", str(r["hist"])))
    judge(rep, res, set(om.C03_KEYS), "replayed TLC state disagrees")
    rep.sample({"mode": "G", "history": mine[-1]["hist"], "expected_jacobian": mine[-1]["jac"]})
    from engine import catalogue
    cres = mc.pool_map(catalogue_worker, list(range(len(catalogue.models()))))
    judge(rep, cres, set(om.C03_KEYS) | {"ode"}, "catalogue model disagrees with the derivatives of its transcription")
    rep.traces(len(cres))
    rep.cov["catalogue_models"] = [r["id"] for r in cres]
    n = 120 if quick else 2500
    opts = {"keys": om.C03_KEYS, "routes": ["E", "E1", "T", "LT", "LBo", "LBd", "LD"], "cython_every": 60 if quick else 80,
            "gen": {"nonsymmetric": True}}
    results = mc.run_oracle(n, seed + 3, opts)
    for r in results:
        rep.distinct(("O", r["id"], r["ns"], r["np"], r["ne"]))
    judge(rep, results, set(om.C03_KEYS), "random definition disagrees")
    rep.traces(len(results))
    rep.sample({"mode": "O", "definition": results[0]["describe"]})
    rep.rule("G: live states of MC_ModelDef (MaxHist=%d) on event routes%s; O: %d random non-symmetric definitions "
             "(nS != nP); jacobian, grad, diff_jacobian, grad_jacobian, transitionJacobian/Mean/Var compared "
             "symbolically (identity test) and numerically at points with pairwise distinct values"
             % (maxhist, " (every third)" if quick else "", n))
    rep.cov["oracle_models"] = n
    rep.cov["replayed_states"] = len(res)
    rep.cov["cython_models"] = sum(1 for r in results if r.get("cython"))
