"""X02 (beyond the listed properties, not in MANIFEST.json) -- copies of a model are models of their own.

E  ModelCopy.tla: with evaluators re-bound to the copy, every evaluation shows the definition of the object it was asked of
   (all histories of Mutate / Evaluate / Copy over three objects, 7 steps); with the closures shared by reference -- what
   copy.deepcopy does on the pinned tree -- TLC finds the counterexample.
G  the counterexample family [build A; evaluate; B = deepcopy(A); mutate B (any add_* route); evaluate B; evaluate A] is
   performed on real models and compared with freshly built models.
Results go to /verif/extras/X02.json.  On the pinned tree the copy's evaluators regenerate from the ORIGINAL's definition
(DESIGN section 13): this check reports that as an observation outside the listed properties.
"""
import copy
import json
import os

import numpy as np

from engine import report, tlc

LEVEL = "exploration"


def run(rep, tier, seed):
    res = tlc.run("ModelCopy", cfg="MC_ModelCopy", workers=4, timeout=600)
    if res.invariant_violated:
        raise report.Machinery("ModelCopy.tla (sound design) violates %s" % res.invariant_violated)
    rep.add_tlc("ModelCopy(RebindOnCopy=TRUE)", res, exhaustive=True)
    neg = tlc.run("ModelCopy", cfg="MC_ModelCopy_pinned", workers=1, timeout=600)
    rep.cov["pinned_design"] = "RebindOnCopy=FALSE -> %s violated" % neg.invariant_violated
    from harness import build  # noqa
    from pygom import SimulateOde, Transition, Event
    from pygom.model import ode_utils

    def fresh(extra):
        ev = [Event(rate="beta*S*I", transition_list=[Transition(origin="S", destination="I", transition_type="T")]),
              Event(rate="gamma*I", transition_list=[Transition(origin="I", destination="R", transition_type="T")])]
        m = SimulateOde(state=["S", "I", "R"], param=["beta", "gamma"], event=ev)
        m._SC = ode_utils.compileCode(backend="lambda")
        m.parameters = [0.5, 0.25]
        for how in extra:
            mutate(m, how)
        return m

    def mutate(m, how):
        if how == "add_ode":
            m.add_ode(Transition(origin="S", equation="gamma*R", transition_type="ODE"))
        elif how == "add_event":
            m.add_event(Event(rate="gamma*R", transition_list=[Transition(origin="R", destination="S", transition_type="T")]))
        elif how == "add_transition":
            m.add_transition(Transition(origin="R", destination="S", equation="beta*R", transition_type="T"))
        else:
            m.add_birth_death(Transition(origin="I", equation="gamma*I", transition_type="D"))
    x = [0.5, 0.25, 0.125]
    for how in ("add_ode", "add_event", "add_transition", "add_birth_death"):
        for warm in (True, False):
            a = fresh([])
            if warm:
                a.ode(x, 0.0)
            b = copy.deepcopy(a)
            mutate(b, how)
            rep.count()
            want_b = np.asarray(fresh([how]).ode(x, 0.0), float)
            want_a = np.asarray(fresh([]).ode(x, 0.0), float)
            got_b = np.asarray(b.ode(x, 0.0), float)
            got_a = np.asarray(a.ode(x, 0.0), float)
            if not np.allclose(got_b, want_b, rtol=1e-12, atol=0):
                rep.violation("the copy does not show its own modification (%s, original evaluated before the copy: %s): ode %s, a fresh "
                              "model gives %s" % (how, warm, got_b.tolist(), want_b.tolist()), {"mutation": how, "warm": warm}, key="copy|" + how)
            elif not np.allclose(got_a, want_a, rtol=1e-12, atol=0):
                rep.violation("modifying the copy changed the original (%s)" % how, {"mutation": how, "warm": warm}, key="original|" + how)
            else:
                rep.traces(1)
    rep.sample({"family": "build A; evaluate; B = deepcopy(A); mutate B; evaluate B; evaluate A"})
    rep.rule("4 mutation routes x original evaluated before / not before the copy")
    os.makedirs(os.path.join(report.VERIF, "extras"), exist_ok=True)
    with open(os.path.join(report.VERIF, "extras", "X02.json"), "w") as f:
        json.dump({"violations": [{"what": v["what"], "key": v["key"]} for v in rep.violations], "coverage": rep.cov}, f, indent=1, default=str)
