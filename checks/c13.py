"""C13 -- sensitivity systems are the variational equations of the model.

E  MC_SensLayout: for every selection of processes from four menus of different shape (2x3 with a saturating
   atom and a Laurent rate, 3x1, 1x2, 2x0) the hand-assembled block Jacobians (kron(I, J), grad_jacobian,
   diff_jacobian.S) equal the DERIVATIVES of the augmented right-hand sides in all three arrangements, the
   layout laws hold, every arrangement is a re-indexing of the largest, the second-order right-hand side is
   symmetric.  Negative control: the pinned tree's by_state assembly is NOT the derivative.
O  random non-symmetric definitions (1..4 states, 0..5 parameters, atoms, derived parameters, every API route):
   the specification's f (+) vec(J.S + G) (+) vec(J.Z) and d/dz of it against ode_and_sensitivity (by parameter and
   by state), ode_and_sensitivityIV and the three *_jacobian functions at points with pairwise distinct entries.
A  the three augmented systems integrated through PyGOM's stepping wrapper (all methods, full_output,
   includeOrigin); every observed row validated by TLC (TR_Integrator) against the reference solution of the
   specification's augmented right-hand side, which is itself compared with central finite differences of
   reference solutions (dx/dtheta and dx/dx0).
"""
from checks import modelcommon as mc
from engine import tlc, report
from harness import oracle_sens as osn


def run(rep, tier, seed):
    quick = tier == "quick"
    res = tlc.run("MC_SensLayout", cfg="MC_SensLayout", workers=8, timeout=1800)
    if res.invariant_violated:
        raise report.Machinery("SensLayout.tla violates %s (design error)" % res.invariant_violated)
    rep.add_tlc("MC_SensLayout(MaxSel=3)", res, exhaustive=True)
    neg = tlc.run("MC_SensLayout", cfg="MC_SensLayout_neg", workers=2)
    if not neg.invariant_violated:
        raise report.Machinery("negative control: TLC must find that the pinned by_state assembly is not the derivative")
    rep.cov["negative_control"] = "pinned by_state block assembly -> %s violated" % neg.invariant_violated
    # O
    n = 96 if quick else 1600
    chunk = 6 if quick else 10
    ids = list(range(n))
    jobs = [(seed % 100000 + 13, ids[i:i + chunk], {"cython_every": 48 if quick else 100}) for i in range(0, n, chunk)]
    out = mc.pool_map(osn.sens_chunk_worker, jobs)
    nres = 0
    for ch in out:
        for r in ch["results"]:
            nres += 1
            rep.count(6)
            rep.distinct(("O", r["id"], r["ns"], r["np"], r["ne"]))
            hist = rep.cov.setdefault("shape_histogram", {})
            k = "%dx%d" % (r["ns"], r["np"])
            hist[k] = hist.get(k, 0) + 1
            seen = set()
            for mm in r["mism"]:
                if mm["key"] == "spec":
                    raise report.Machinery("specification block identity fails on %s" % r["describe"])
                if mm["key"] in seen:
                    continue
                seen.add(mm["key"])
                rep.violation("augmented system disagrees with the variational equations: %s" % mm,
                              {"definition": r["describe"], "mismatches": r["mism"]},
                              key="O|%s|%s" % (mm["key"], mm["kind"]))
            if nres == 1:
                rep.sample({"mode": "O", "definition": r["describe"]})
    rep.traces(nres)
    rep.cov["oracle_models"] = nres
    # A
    na = 32 if quick else 480
    jobs = [(seed % 100000 + 14, i, {"quick": quick}) for i in range(na)]
    results = mc.pool_map(osn.sens_int_worker, jobs)
    acc = 0
    for r in results:
        if r.get("machinery"):
            raise report.Machinery("model %s: %s" % (r.get("name"), r["machinery"]))
        rep.count(r["calls"])
        rep.traces(r["accepted"])
        acc += r["accepted"]
        rep.cov["states"] += r["states"]
        rep.cov["transitions"] += r["steps"]
        model = {"name": r.get("name"), "definition": r.get("describe"), "theta": r.get("theta"), "x0": r.get("x0")}
        for f in r["findings"]:
            arrangement = (f.get("config") or "?").split("/")[0]
            rep.violation("%s: %s (%s)" % (f["what"], f["detail"], f.get("config")), {"model": model, "finding": f},
                          key="A|%s|%s" % (f["what"], arrangement))
        for rej in r["rejected"]:
            arrangement = (rej.get("config") or "?").split("/")[0]
            rep.violation("integrated sensitivities rejected by TR_Integrator (%s) %s at event %s: observed %s reference %s tol %s"
                          % (rej["label"], rej.get("config"), rej.get("at"), str(rej.get("observed"))[:150],
                             str(rej.get("reference"))[:150], rej.get("tol")),
                          {"model": model, "rejection": rej}, key="A|tlc|%s|%s" % (rej["label"], arrangement))
        rep.cov["max_relative_error_seen"] = max(rep.cov.get("max_relative_error_seen", 0.0), r["maxerr"])
        rep.cov["max_spec_vs_finite_difference"] = max(rep.cov.get("max_spec_vs_finite_difference", 0.0), r["fd_maxerr"])
        for c in r["configs"]:
            c0 = c.split("/")[0] + "/" + c.split("/")[1]
            rep.cov.setdefault("configs", {})
            rep.cov["configs"][c0] = rep.cov["configs"].get(c0, 0) + 1
        if r.get("sample"):
            rep.sample({"mode": "A", "model": model, "call": r["sample"]}, limit=3)
    rep.assume("reference engine: scipy solve_ivp DOP853 (rtol 1e-12, atol 1e-13) on the specification's augmented right-hand side")
    rep.assume("integrated rows: tolerance 1e-6 (1 + max|ref|) (the code integrates with atol = rtol = 1e-10); "
               "specification vs central finite differences of reference solutions: 1e-5")
    rep.assume("results are compared after reshaping to the documented shape; points have pairwise distinct entries")
    rep.rule("E: 31 definitions x 6 invariants; O: %d random non-symmetric definitions incl. parameter-free and single-state "
             "ones, 6 functions x 2 points each; A: %d random bounded-rate models x 3 arrangements x 2+ methods, every step a "
             "trace event" % (nres, na))
    if acc == 0 and not rep.violations and not rep.known_hits:
        raise report.Machinery("no integrated call was accepted (vacuous)")


def selftest(seed):
    from checks import selftest as st
    return st.run([st.integrator])
