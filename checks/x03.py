"""X03 (beyond the listed properties, not in MANIFEST.json) -- the next-generation decomposition of epi_analysis.

E  NextGen.tla: for every definition reachable in MC_ModelDef and every non-empty proper subset Dis of the states,
   F - V is the right-hand side of the disease states, dF - dV the corresponding block of the Jacobian, and without a
   between-state transition from outside Dis there is no new infection (InvNextGen).
O  random event-defined models and random disease-state selections: epi_analysis.disease_progression_matrices(model, names,
   diff=False / True) must be the specification's F, V (vectors over the disease states in model order) and dF, dV
   (their Jacobians with respect to the disease states), compared at rational points with 30 digits.
Results go to /verif/extras/X03.json; nothing here is claimed in the manifest.
"""
import json
import os
import random
import traceback

from checks import modelcommon as mc
from engine import gen, report, tlc

LEVEL = "exploration"


def worker(args):
    import shutil
    import mpmath
    from engine import codec
    from harness import build, oracle_model as om
    seed, ids = args
    d = tlc.scratch_dir("x03_")
    out = []
    try:
        items, jobs = [], []
        for i in ids:
            rng = random.Random((seed << 20) + i)
            # every third definition has derived parameters (disease_progression_matrices rebuilds a model from the state
            # and parameter lists only, so it cannot know them: reported apart)
            defn = gen.random_defn(rng, ns=rng.randint(2, 4), np_=rng.randint(1, 4), ne=rng.randint(1, 5), allow_odes=False,
                                   allow_derived=(i % 3 == 0), range_style=False,
                                   shapes=["linear", "mass", "norm", "const", "two", "quad"])
            for p in defn.procs:
                p["route"] = "E"
                p["how"] = "ctor"
            ns = defn.sy.ns
            dis = sorted(rng.sample(range(1, ns + 1), rng.randint(1, ns - 1)))
            j = defn.to_json(i, want=["nextgen"])
            j["dis"] = dis
            items.append((i, defn, dis))
            jobs.append(j)
        outs, _ = om.run_tlc_oracle(jobs, d, "x03_%d" % ids[0])
        from pygom.model import epi_analysis
        for (i, defn, dis), o in zip(items, outs):
            rng = random.Random((seed << 20) + i + 5)
            sy = defn.sy
            r = {"id": i, "describe": defn.describe(), "disease_states": [sy.states[k - 1] for k in dis], "mism": [],
                 "derived": sy.nd > 0}
            try:
                m, events, odes = build.build(defn, rng=rng, style=rng.randrange(6))
                names = [sy.states[k - 1] for k in dis]
                # (names are given in model order: rows follow the order in which the names are given, columns the model
                # order -- a consistent permutation of both matrices that leaves the eigenvalues of F V^-1 alone)
                got = {}
                got["F"], got["V"] = epi_analysis.disease_progression_matrices(m, names, diff=False)
                got["dF"], got["dV"] = epi_analysis.disease_progression_matrices(m, names, diff=True)
                nd = len(dis)
                pts = [gen.random_point(rng, sy) for _ in range(2)]
                for key in ("F", "V", "dF", "dV"):
                    spec = o["nextgen"][key]
                    polys = [codec.P(t) for t in spec] if key in ("F", "V") else [codec.P(t) for row in spec for t in row]
                    for pt in pts:
                        values = {nm: v for nm, v in zip(sy.names(), pt)}
                        vals, shape = om.sym_matrix_eval(got[key], values)
                        if len(vals) != len(polys):
                            r["mism"].append({"key": key, "kind": "shape", "detail": "%s for %d disease states" % (shape, nd)})
                            break
                        with mpmath.workdps(30):
                            fp = codec.full_point(sy, [mpmath.mpf(v.numerator) / v.denominator for v in pt], mp=True)
                            bad = None
                            for idx, (g, p) in enumerate(zip(vals, polys)):
                                e, sc = codec.peval(sy, p, fp, mp=True, scale=True)
                                if abs(g - e) > om.SYM_TOL * (sc + abs(g)) + mpmath.mpf("1e-25"):
                                    bad = (idx, mpmath.nstr(g, 12), mpmath.nstr(e, 12))
                                    break
                        if bad:
                            r["mism"].append({"key": key, "kind": "value", "detail": "entry %d: pygom %s spec %s" % bad})
                            break
            except Exception as ex:
                r["mism"].append({"key": "call", "kind": "raised", "detail": "".join(traceback.format_exception_only(type(ex), ex))[:300]})
            out.append(r)
    finally:
        shutil.rmtree(d, ignore_errors=True)
    return out


def run(rep, tier, seed):
    quick = tier == "quick"
    from checks.modelcommon import MC_CFG
    d = tlc.scratch_dir("x03mc_")
    try:
        cfg = os.path.join(d, "c.cfg")
        with open(cfg, "w") as f:
            f.write((MC_CFG % {"maxhist": 2 if quick else 3, "dump": "FALSE", "derivs": "FALSE"})
                    .replace("INVARIANT Dump", "INVARIANT InvNextGen"))
        res = tlc.run("MC_ModelDef", cfg=cfg, workers=mc.NPROC, timeout=3000)
    finally:
        import shutil
        shutil.rmtree(d, ignore_errors=True)
    if res.invariant_violated:
        raise report.Machinery("NextGen.tla: %s violated" % res.invariant_violated)
    rep.add_tlc("MC_ModelDef + InvNextGen", res, exhaustive=True)
    n = 96 if quick else 1200
    ids = list(range(n))
    results = [r for ch in mc.pool_map(worker, [(seed % 100000 + 73, ids[i:i + 8]) for i in range(0, n, 8)]) for r in ch]
    kinds = {}
    for r in results:
        rep.count()
        if r["mism"]:
            k = "%s:%s%s" % (r["mism"][0]["key"], r["mism"][0]["kind"], " (model with derived parameters)" if r["derived"] else "")
            kinds[k] = kinds.get(k, 0) + 1
            rep.violation("disease progression matrices differ from the specification's: %s" % r["mism"][0],
                          {"definition": r["describe"], "disease_states": r["disease_states"], "mismatches": r["mism"]}, key=k)
        else:
            rep.traces(1)
            rep.distinct(r["id"])
    rep.cov["mismatch_kinds"] = kinds
    rep.sample({"definition": results[0]["describe"], "disease_states": results[0]["disease_states"]})
    rep.rule("%d random event-defined models x one random disease-state selection" % n)
    os.makedirs(os.path.join(report.VERIF, "extras"), exist_ok=True)
    with open(os.path.join(report.VERIF, "extras", "X03.json"), "w") as f:
        json.dump({"violations": [{"what": v["what"], "key": v["key"]} for v in rep.violations][:50], "coverage": rep.cov}, f, indent=1, default=str)
