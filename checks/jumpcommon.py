"""Shared driver for the stochastic layer (C04, C05, C10, C11, C15): record real runs, validate them
with TLC against spec/TR_Jump.tla, label rejections."""
import json
import os
import random
import re
import shutil

import numpy as np

from engine import tlc, report

MC_TEMPLATE = """SPECIFICATION FairSpec
CONSTANTS
  NSt = %(nst)d
  NEv = %(nev)d
  V <- %(V)s
  Lo <- %(Lo)s
  Hi <- %(Hi)s
  NoLim <- NoL
  RatePos <- %(RP)s
  Exact = %(exact)s
  X0 <- %(X0)s
  T0 = 0
  Horizon = %(hor)d
  MaxCount = %(mc)d
  MaxDt = %(dt)d
INVARIANT TypeOK
INVARIANT InLimits
INVARIANT WalkLaw
INVARIANT TimeStrict
INVARIANT ExactIsOneEventPerStep
INVARIANT StopSound
INVARIANT Conservation
INVARIANT GridLaw
PROPERTY RejectedStepChangesNothing
PROPERTY Terminates
CHECK_DEADLOCK FALSE
"""

# (name, NSt, NEv, V, Lo, Hi, RatePos, Exact, X0, quick (horizon, maxcount, maxdt), thorough (...))
MC_INSTANCES = [
    ("sir_exact", 3, 2, "V_SIR", "Lo3", "No3", "RP_SIR", "TRUE", "X0_SIR", (4, 1, 2), (6, 1, 2)),
    ("sir_tau", 3, 2, "V_SIR", "Lo3", "No3", "RP_SIR", "FALSE", "X0_SIR", (3, 2, 2), (4, 2, 2)),
    ("sirb_tau", 3, 3, "V_SIRB", "Lo3", "Hi_SIRB", "RP_SIRB", "FALSE", "X0_SIRB", (3, 2, 1), (4, 2, 1)),
    ("one_tau", 1, 1, "V_ONE", "Lo1", "No1", "RP_ONE", "FALSE", "X0_ONE", (4, 2, 2), (6, 3, 2)),
    ("bd2_tau", 1, 2, "V_BD2", "Lo1", "Hi_BD2", "RP_BD2", "FALSE", "X0_BD2", (4, 2, 1), (5, 2, 2)),
    ("mt_exact", 2, 2, "V_MT", "Lo_MT", "Hi_MT", "RP_MT", "TRUE", "X0_MT", (4, 1, 2), (7, 1, 2)),
]


def run_mc_jump(rep, tier, only=None):
    """E: the exhaustive instances of Jump.tla"""
    for inst in MC_INSTANCES:
        name = inst[0]
        if only and name not in only:
            continue
        hor, mcnt, dt = inst[9] if tier == "quick" else inst[10]
        d = tlc.scratch_dir("mc_jump_")
        try:
            cfg = os.path.join(d, "mcj.cfg")
            with open(cfg, "w") as f:
                f.write(MC_TEMPLATE % dict(nst=inst[1], nev=inst[2], V=inst[3], Lo=inst[4], Hi=inst[5], RP=inst[6],
                                           exact=inst[7], X0=inst[8], hor=hor, mc=mcnt, dt=dt))
            res = tlc.run("MC_Jump", cfg=cfg, workers=8, timeout=1800)
        finally:
            shutil.rmtree(d, ignore_errors=True)
        if res.invariant_violated:
            raise report.Machinery("Jump.tla violates %s on instance %s (design error)" % (res.invariant_violated, name))
        rep.add_tlc("MC_Jump/%s(H=%d,counts<=%d,dt<=%d)" % (name, hor, mcnt, dt), res, exhaustive=True)


TR_CFG = """SPECIFICATION TraceSpec
CONSTANTS
  NSt <- TraceNSt
  NEv <- TraceNEv
  V <- TraceV
  Lo <- TraceLo
  Hi <- TraceHi
  NoLim <- NoL
  RatePos <- TraceRatePos
  Exact = FALSE
  X0 = 0
  T0 = 0
  Horizon = 0
  MaxCount = 0
  MaxDt = 0
INVARIANT Progress
INVARIANT InLimitsNow
INVARIANT StopSound
INVARIANT TraceConservation
PROPERTY RejectedStepChangesNothing
CHECK_DEADLOCK FALSE
"""
AT = re.compile(r'<<"AT", (\d+), (\d+), (\d+)>>')


def validate(trace_path, workdir):
    """run TLC on one trace file; returns {tid: (reached, needed)}, result"""
    cfg = os.path.join(workdir, "tr_jump.cfg")
    with open(cfg, "w") as f:
        f.write(TR_CFG)
    res = tlc.run("TR_Jump", cfg=cfg, workers=1, env={"TRACE_FILE": trace_path}, timeout=1800)
    prog = {}
    for m in AT.finditer(res.out):
        tid, l, need = int(m.group(1)), int(m.group(2)), int(m.group(3))
        cur = prog.get(tid, (0, need))
        prog[tid] = (max(cur[0], l), need)
    return prog, res


def label_failure(ev, defn, lims):
    """name the clause that the first unmatched event breaks (diagnosis only; the verdict is TLC's)"""
    kind = ev.get("ev")
    if kind in ("End", "Zero"):
        return "stop"
    if kind in ("Return",):
        return "return"
    if kind == "Gridded":
        return "grid"
    if kind not in ("FR", "TL"):
        return "other"
    ns = defn.sy.ns
    events = defn.events()
    V = np.zeros((ns, len(events)), int)
    for e, p in enumerate(events):
        for t in p["trs"]:
            mag = int(list(t["mag"].values())[0]) if t["mag"] else 0
            if t["ty"] in ("T", "D"):
                V[t["o"] - 1, e] -= mag
            if t["ty"] in ("T", "B"):
                V[t["d"] - 1, e] += mag
    xb, xa, c = np.array(ev["xb"]), np.array(ev["xa"]), np.array(ev["counts"])
    tgt = xb + V.dot(c)

    def inlim(y):
        return all((lo is None or y[i] >= lo) and (hi is None or y[i] <= hi) for i, (lo, hi) in enumerate(lims))
    if ev["ok"]:
        parts = []
        if not inlim(xa) or not inlim(tgt):
            parts.append("limits")
        if np.any(xa != tgt) or np.any(c < 0):
            parts.append("walk")           # an accepted step is not x + V.counts (whatever the limits say)
        if parts:
            return "+".join(parts)
    else:
        if np.any(xa != xb) or inlim(tgt):
            return "limits"
    if kind == "FR" and ev.get("draws") is not None:
        return "draws-or-walk"
    return "walk"


def model_worker(args):
    """one model: generate, simulate with the recorder, validate with TLC.  Returns a result dict."""
    from harness import record_jump as rj
    seed, idx, opts = args
    rng = random.Random((seed << 16) + idx)
    defn, theta, x0, lims = rj.random_jump_model(rng, closed=opts.get("closed", False), shape=opts.get("shape"),
                                                 limits=opts.get("limits", True))
    res = {"idx": idx, "describe": defn.describe(), "theta": [str(t) for t in theta], "x0": x0, "lims": lims,
           "findings": [], "rejected": [], "accepted": 0, "discarded": 0, "runs": 0, "steps": 0, "states": 0,
           "kinds": {}}
    try:
        m, events = rj.make_model(defn, theta, x0, lims, rng, backend=opts.get("backend", "lambda"))
    except Exception as ex:
        res["findings"].append({"what": "model construction raised", "detail": repr(ex)[:300], "label": "build"})
        return res
    plan = rj.run_plan(rng, True)
    if opts.get("plan_filter"):
        plan = [p for p in plan if opts["plan_filter"](p)]
    runs = rj.perform(m, defn, theta, x0, plan, rng, (seed * 7919 + idx) % 100000, max_steps=opts.get("max_steps", 200))
    _validate_runs(res, rj, defn, events, theta, lims, runs, opts, "")
    if opts.get("extend") and rng.random() < opts["extend"] and "machinery" not in res:
        # the SAME model object is extended after it has been simulated (add_event / add_transition / add_birth_death)
        # and simulated again: the later paths must be walks of the extended definition
        from harness import build
        from engine import codec, gen
        proc = rj.extra_event(rng, defn, lims)
        route = build.pick_add_route(rng, proc, allow_ode=False)
        try:
            _slot, adder, obj = build.api_object(defn.sy, proc, route, codec.render(defn.sy, proc["rate"], rng.randrange(6), rng),
                                                 style=rng.randrange(6), rng=rng)
            getattr(m, adder)(obj)
        except Exception as ex:
            res["findings"].append({"what": "adding an event to a simulated model raised", "detail": repr(ex)[:300],
                                    "label": "build"})
            return res
        proc = dict(proc, route=route)
        defn2 = gen.Defn(defn.sy, [], list(defn.procs) + [proc], lims=lims, decl=defn.decl)
        plan2 = [{"exact": True, "grid": None}, {"exact": False, "grid": None},
                 {"exact": True, "grid": rng.choice(["list", "array"])}]
        if opts.get("plan_filter"):
            plan2 = [p for p in plan2 if opts["plan_filter"](p)]
        runs2 = rj.perform(m, defn2, theta, x0, plan2, rng, (seed * 7919 + idx + 50000) % 100000,
                           max_steps=opts.get("max_steps", 200))
        for r in runs2:
            r["plan"]["after_add"] = adder + ":" + route
        res["extended"] = {"route": route, "adder": adder, "event": defn2.describe()["procs"][-1]}
        _validate_runs(res, rj, defn2, events + [proc], theta, lims, runs2, opts, "after-add:")
    return res


def _validate_runs(res, rj, defn, events, theta, lims, runs, opts, tag):
    traces, meta = [], []
    for r in runs:
        res["runs"] += 1
        tr, finding, discard = rj.to_trace_run(r, defn)
        if finding:
            finding["plan"] = r["plan"]
            finding["seed"] = r["seed"]
            finding["label"] = "python"
            res["findings"].append(finding)
        elif discard:
            res["discarded"] += 1
        else:
            if not opts.get("checkdraws", False):
                tr["checkdraws"] = False
            traces.append(tr)
            meta.append({"plan": r["plan"], "seed": r["seed"], "horizon": r["horizon"], "grid": r["grid"]})
            for e in tr["events"]:
                res["kinds"][e["ev"] + ("" if e.get("ok", True) else "-rejected")] = \
                    res["kinds"].get(e["ev"] + ("" if e.get("ok", True) else "-rejected"), 0) + 1
    if not traces:
        return res
    workdir = tlc.scratch_dir("tr_jump_")
    try:
        path = os.path.join(workdir, "trace.json")
        rj.trace_file(defn, events, theta, lims, traces, path)
        try:
            prog, tres = validate(path, workdir)
        except tlc.TLCError as ex:
            res["machinery"] = str(ex)
            return res
        res["states"] += tres.distinct or 0
        if tres.invariant_violated:
            res["rejected"].append({"tid": 0, "label": "invariant:" + tres.invariant_violated,
                                    "detail": tres.out[-1500:], "meta": None})
        for tid, tr in enumerate(traces, start=1):
            reached, need = prog.get(tid, (0, len(tr["events"]) + 1))
            res["steps"] += len(tr["events"])
            if reached >= need:
                res["accepted"] += 1
            elif not tres.invariant_violated:
                ev = tr["events"][reached - 1] if 1 <= reached <= len(tr["events"]) else {}
                res["rejected"].append({"tid": tid, "label": label_failure(ev, defn, lims), "at": reached,
                                        "event": ev, "prev": tr["events"][reached - 2] if reached >= 2 else None,
                                        "meta": meta[tid - 1], "exact": tr["exact"],
                                        "definition": defn.describe() if tag else None})
        if not tag:
            res["sample"] = {"run": meta[0], "first_events": traces[0]["events"][:3]}
        if opts.get("grid_alone") and not tres.invariant_violated:
            # runs rejected before their Gridded event was reached: the returned table is judged on its own
            again = [rej["tid"] for rej in res["rejected"] if rej.get("tid") and rej["label"] != "grid"
                     and rej.get("definition") == (defn.describe() if tag else None)
                     and traces[rej["tid"] - 1]["events"] and traces[rej["tid"] - 1]["events"][-1]["ev"] == "Gridded"]
            if again:
                path2 = os.path.join(workdir, "trace_grid.json")
                rj.trace_file(defn, events, theta, lims, [dict(traces[tid - 1], gridonly=True) for tid in again], path2)
                try:
                    prog2, tres2 = validate(path2, workdir)
                except tlc.TLCError as ex:
                    res["machinery"] = str(ex)
                    return res
                res["grid_alone"] = res.get("grid_alone", 0) + len(again)
                for k, tid in enumerate(again, start=1):
                    tr = traces[tid - 1]
                    reached, need = prog2.get(k, (0, len(tr["events"]) + 1))
                    if reached < need:
                        res["rejected"].append({"tid": tid, "label": "grid", "at": len(tr["events"]), "event": tr["events"][-1],
                                                "prev": None, "meta": meta[tid - 1], "exact": tr["exact"],
                                                "note": "the path of this run was rejected upstream; the returned table "
                                                        "was judged on its own (rows, first row, counts >= 0, consecutive "
                                                        "rows differ by V . counts)",
                                                "definition": defn.describe() if tag else None})
    finally:
        shutil.rmtree(workdir, ignore_errors=True)
    return res
