SPECIFICATION FairSpec
CONSTANTS
  NSt = 3
  NEv = 3
  V <- V_SIRB
  Lo <- Lo3
  Hi <- Hi_SIRB
  NoLim <- NoL
  RatePos <- RP_SIRB
  Exact = FALSE
  X0 <- X0_SIRB
  T0 = 0
  Horizon = 3
  MaxCount = 2
  MaxDt = 1
INVARIANT TypeOK
INVARIANT InLimits
INVARIANT WalkLaw
INVARIANT TimeStrict
INVARIANT ExactIsOneEventPerStep
INVARIANT StopSound
INVARIANT Conservation
INVARIANT GridLaw
PROPERTY RejectedStepChangesNothing
PROPERTY Terminates
CHECK_DEADLOCK FALSE
