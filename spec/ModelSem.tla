------------------------------ MODULE ModelSem ------------------------------
(***************************************************************************)
(* Layer L4 of the PyGOM specification: the meaning of a model definition. *)
(*                                                                         *)
(* A definition D is a record                                              *)
(*   ns, np, nd   number of states, parameters, derived parameters         *)
(*   npx          number of parameter slots in the symbol table (>= np; a   *)
(*                model may gain parameters later, which then take the next *)
(*                free slot, so positions never move)                      *)
(*   n            number of symbols; the symbol order is                   *)
(*                  states (1..ns), t (ns+1), parameters, derived, atoms   *)
(*                which is also the positional order (x, t, theta) of every *)
(*                numeric evaluator                                        *)
(*   atoms        atom table (see Poly)                                    *)
(*   derived      sequence of polynomials, the k-th one defines symbol     *)
(*                ns+1+np+k and may mention earlier derived symbols        *)
(*   events       sequence of [rate, trs], trs a sequence of               *)
(*                [ty \in {"T","B","D"}, o, d, mag]  (0 = no such state)   *)
(*   odes         sequence of [st, eqn]   explicit ODE terms               *)
(*                                                                         *)
(* The operators are written the way the implementation computes the       *)
(* objects (the ODE by per-transition accumulation, V and R by their own   *)
(* builders) so that their agreement is something TLC checks, not a        *)
(* definition.                                                             *)
(***************************************************************************)
EXTENDS Poly

TIdx(D)       == D.ns + 1
ParamIdx(D,k) == D.ns + 1 + k
DerIdx(D, k)  == D.ns + 1 + D.npx + k
StateIdxs(D)  == 1..D.ns
NE(D)         == Len(D.events)

---------------------------------------------------------------------------
(* Derived parameters are substituted away, in declaration order *)

RECURSIVE DerivedFull(_, _)
DerivedFull(D, k) ==
    \* the k-th derived parameter in base symbols only
    LET RECURSIVE Sub(_, _)
        Sub(p, j) == IF j = 0 THEN p
                     ELSE Sub(PSubst(p, DerIdx(D, j), DerivedFull(D, j), D.n), j - 1)
    IN  Sub(D.derived[k], k - 1)

RECURSIVE SubstFrom(_, _, _)
SubstFrom(D, p, j) == IF j = 0 THEN p
                      ELSE SubstFrom(D, PSubst(p, DerIdx(D, j), DerivedFull(D, j), D.n), j - 1)
SubstDerived(D, p) == SubstFrom(D, p, D.nd)

---------------------------------------------------------------------------
(* Events *)

Sign(tr, i) ==
    CASE tr.ty = "T" -> (IF i = tr.o THEN -1 ELSE IF i = tr.d THEN 1 ELSE 0)
      [] tr.ty = "B" -> (IF i = tr.d THEN 1 ELSE 0)
      [] tr.ty = "D" -> (IF i = tr.o THEN -1 ELSE 0)

Touches(tr, i) ==
    CASE tr.ty = "T" -> (i = tr.o \/ i = tr.d)
      [] tr.ty = "B" -> i = tr.d
      [] tr.ty = "D" -> i = tr.o

Rate(D, e)   == SubstDerived(D, D.events[e].rate)
Mag(D, tr)   == SubstDerived(D, tr.mag)
RateVec(D)   == [e \in 1..NE(D) |-> Rate(D, e)]

(* state-change matrix: V[i][e] = net signed magnitude of event e on state i *)
VEntry(D, i, e) ==
    LET trs == D.events[e].trs
    IN  PSumOver(1..Len(trs), LAMBDA k : PScale(RInt(Sign(trs[k], i)), Mag(D, trs[k])))
VMat(D) == [i \in 1..D.ns |-> [e \in 1..NE(D) |-> VEntry(D, i, e)]]

Reactant(D) ==
    [i \in 1..D.ns |-> [e \in 1..NE(D) |->
        IF \E k \in 1..Len(D.events[e].trs) : Touches(D.events[e].trs[k], i) THEN 1 ELSE 0]]

PureOde(D) ==
    [i \in 1..D.ns |->
        PSumOver({k \in 1..Len(D.odes) : D.odes[k].st = i},
                 LAMBDA k : SubstDerived(D, D.odes[k].eqn))]

(* the ODE as the implementation accumulates it: transition by transition *)
OdeEvents(D) ==
    [i \in 1..D.ns |->
        PSumOver({<<e, k>> \in (1..NE(D)) \X (1..3) : k <= Len(D.events[e].trs)},
                 LAMBDA ek : PScale(RInt(Sign(D.events[ek[1]].trs[ek[2]], i)),
                                    PMul(Mag(D, D.events[ek[1]].trs[ek[2]]), Rate(D, ek[1]))))]
MaxTrs(D) == IF NE(D) = 0 THEN 0 ELSE Max({Len(D.events[e].trs) : e \in 1..NE(D)})
Ode(D)  == VAdd(OdeEvents(D), PureOde(D))

(* ... and as the property states it *)
VR(D)        == MatVec(VMat(D), RateVec(D), D.ns)
OdeIsVRPlusPure(D) == Ode(D) = VAdd(VR(D), PureOde(D))

---------------------------------------------------------------------------
(* Derivatives (C03).  Row / column conventions are those documented:      *)
(*   Jac      ns x ns        Jac[i][j]   = d f_i / d x_j                   *)
(*   Grad     ns x np        Grad[i][k]  = d f_i / d theta_k               *)
(*   DiffJac  ns*ns x ns     row (i-1)*ns+a, col b = d2 f_i / dx_a dx_b    *)
(*   GradJac  np*ns x ns     row (k-1)*ns+i, col j = d2 f_i / dth_k dx_j   *)
(*   Hess[i]  np x np        d2 f_i / dth_k dth_l                          *)

DState(D, p, j) == PDiff(p, j, D.atoms, D.n)
DParam(D, p, k) == PDiff(p, ParamIdx(D, k), D.atoms, D.n)

Jac(D)  == LET f == Ode(D) IN [i \in 1..D.ns |-> [j \in 1..D.ns |-> DState(D, f[i], j)]]
Grad(D) == LET f == Ode(D) IN [i \in 1..D.ns |-> [k \in 1..D.np |-> DParam(D, f[i], k)]]

DiffJac(D) ==
    LET f == Ode(D)
    IN  [r \in 1..(D.ns * D.ns) |->
            LET i == ((r - 1) \div D.ns) + 1
                a == ((r - 1) % D.ns) + 1
            IN  [b \in 1..D.ns |-> DState(D, DState(D, f[i], a), b)]]

GradJac(D) ==
    LET f == Ode(D)
    IN  [r \in 1..(D.np * D.ns) |->
            LET k == ((r - 1) \div D.ns) + 1
                i == ((r - 1) % D.ns) + 1
            IN  [j \in 1..D.ns |-> DState(D, DParam(D, f[i], k), j)]]

Hess(D) ==
    LET f == Ode(D)
    IN  [i \in 1..D.ns |-> [k \in 1..D.np |-> [l \in 1..D.np |->
            DParam(D, DParam(D, f[i], k), l)]]]

(* tau-leap statistics: TJ[a][b] = sum_k dR_a/dx_k V[k][b] *)
TransJac(D) ==
    LET R == RateVec(D)
        V == VMat(D)
    IN  [a \in 1..NE(D) |-> [b \in 1..NE(D) |->
            PSumOver(1..D.ns, LAMBDA k : PMul(DState(D, R[a], k), V[k][b]))]]
TransMean(D) ==
    LET F == TransJac(D)
        R == RateVec(D)
    IN  [a \in 1..NE(D) |-> PSumOver(1..NE(D), LAMBDA b : PMul(F[a][b], R[b]))]
TransVar(D) ==
    LET F == TransJac(D)
        R == RateVec(D)
    IN  [a \in 1..NE(D) |-> PSumOver(1..NE(D), LAMBDA b : PMul(PMul(F[a][b], F[a][b]), R[b]))]

---------------------------------------------------------------------------
(* Structural facts used by the properties *)

AllBetweenStates(D) == /\ Len(D.odes) = 0
                       /\ \A e \in 1..NE(D) : \A k \in 1..Len(D.events[e].trs) :
                              D.events[e].trs[k].ty = "T"
(* C10, symbolic clause *)
ClosedConserves(D) == AllBetweenStates(D) => PIsZero(VSum(Ode(D)))
(* columns of V sum to zero for closed models (what the stochastic clause uses) *)
ClosedColumnsZero(D) ==
    AllBetweenStates(D) =>
        \A e \in 1..NE(D) : PIsZero(PSumOver(1..D.ns, LAMBDA i : VEntry(D, i, e)))
ReactantIsSupport(D) ==
    \* a state is a reactant of an event iff some transition of the event names it
    \A i \in 1..D.ns : \A e \in 1..NE(D) :
        (~PIsZero(VEntry(D, i, e))) => Reactant(D)[i][e] = 1

WellFormed(D) ==
    /\ D.npx >= D.np
    /\ D.n >= D.ns + 1 + D.npx + D.nd
    /\ \A e \in 1..NE(D) : Len(D.events[e].trs) \in 1..3
    /\ \A e \in 1..NE(D) : \A k \in 1..Len(D.events[e].trs) :
          LET tr == D.events[e].trs[k] IN
          CASE tr.ty = "T" -> tr.o \in 1..D.ns /\ tr.d \in 1..D.ns /\ tr.o # tr.d
            [] tr.ty = "B" -> tr.d \in 1..D.ns
            [] tr.ty = "D" -> tr.o \in 1..D.ns

=============================================================================
