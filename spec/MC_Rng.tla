------------------------------- MODULE MC_Rng -------------------------------
(* Exhaustive instance: two seeds, three configurations (two that draw, one that does not), every history of   *)
(* seedings and runs up to MaxLen.  With every source "global" both clauses hold; the negative controls put    *)
(* a fresh (unseeded) generator, resp. a constant-seeded local generator, behind one configuration.            *)
EXTENDS Rng, Json
CONSTANT DumpOn
AllGlobal == [c \in Configs |-> "global"]
OneFresh  == [c \in Configs |-> IF c = "B" THEN "fresh" ELSE "global"]
OneLocal  == [c \in Configs |-> IF c = "B" THEN "local" ELSE "global"]
DrawsAB   == [c \in Configs |-> c # "N"]
(* sessions for replay: the sequence of API calls of each maximal history *)
VARIABLE script
SInit == Init /\ script = <<>>
SNext == /\ Len(script) < MaxLen + 2
         /\ \/ \E s \in Seeds : SeedIt(s) /\ script' = Append(script, [op |-> "seed", a |-> s])
            \/ \E c \in Configs : Run(c) /\ script' = Append(script, [op |-> "run", a |-> c])
SSpec == SInit /\ [][SNext]_<<rvars, script>>
Dump == (DumpOn /\ Len(script) = MaxLen + 2) => PrintT(ToJson([script |-> script]))
=============================================================================
