------------------------------ MODULE ModelDef ------------------------------
(***************************************************************************)
(* Layer L1: how a model definition comes into being through the API.      *)
(*                                                                         *)
(* The user has abstract processes in mind (Menu); each one is handed to    *)
(* PyGOM through one of the API routes                                      *)
(*   E    Event(rate, [transitions without equation])                       *)
(*   E1   Event([transitions, exactly one carrying the equation])           *)
(*   T    a bare Transition carrying its equation where an event is expected *)
(*   LT   legacy between-state list / add_transition                        *)
(*   LBo  legacy birth named by its origin, LBd by its destination          *)
(*   LD   legacy death                                                      *)
(*   ODE  the same process written as explicit ODE terms                    *)
(* either in the constructor lists (which the constructor consumes in the   *)
(* fixed order event, transition, birth_death, ode) or by an incremental    *)
(* add_* call afterwards.  Every event route normalises to the same         *)
(* Event(rate, transitions) -- magnitude included: that is what "equivalent *)
(* ways of specifying a model give the same model" (C12) demands.           *)
(*                                                                         *)
(* procs is a ghost: the processes the user meant, independent of routes.   *)
(***************************************************************************)
EXTENDS ModelSem

CONSTANTS NS, NP, ND, NSym,     \* sizes of the symbol table
          Atoms, Derived,       \* atom table, derived-parameter polynomials
          Menu,                 \* sequence of abstract processes
          MaxHist               \* bound on the number of API calls

VARIABLES phase,                \* "ctor": collecting constructor arguments, "live": object exists
          slotE, slotT, slotB,  \* constructor lists event=, transition=, birth_death=
          tail,                 \* events appended by add_* calls, in call order
          slotO, tailO,         \* explicit ODE terms: constructor list, later add_ode calls
          procs,                \* ghost: sequence of Menu indices
          hist                  \* the API calls so far (for replay into the implementation)

vars == <<phase, slotE, slotT, slotB, tail, slotO, tailO, procs, hist>>

IsOde(p) == p.kind = "ode"

Routes(p) ==
    IF IsOde(p) THEN {"ODE"}
    ELSE {"E", "E1", "ODE"} \cup
         (IF Len(p.trs) = 1
          THEN {"T"} \cup (CASE p.trs[1].ty = "T" -> {"LT"}
                             [] p.trs[1].ty = "B" -> {"LBo", "LBd"}
                             [] p.trs[1].ty = "D" -> {"LD"})
          ELSE {})

Slot(r) == CASE r \in {"E", "E1", "T"}     -> "event"
             [] r = "LT"                    -> "transition"
             [] r \in {"LBo", "LBd", "LD"}  -> "birth_death"
             [] r = "ODE"                   -> "ode"

(* what the API stores for an event route: always the same Event *)
Normal(p) == [rate |-> p.rate, trs |-> p.trs]

(* the explicit-ODE rendering of a process *)
RECURSIVE TermsOfTrs(_, _, _)
TermsOfTrs(trs, rate, k) ==
    IF k > Len(trs) THEN <<>>
    ELSE LET tr   == trs[k]
             term == PMul(tr.mag, rate)
             here == CASE tr.ty = "T" -> << [st |-> tr.o, eqn |-> PNeg(term)], [st |-> tr.d, eqn |-> term] >>
                       [] tr.ty = "B" -> << [st |-> tr.d, eqn |-> term] >>
                       [] tr.ty = "D" -> << [st |-> tr.o, eqn |-> PNeg(term)] >>
         IN  here \o TermsOfTrs(trs, rate, k + 1)
OdeTerms(p) == IF IsOde(p) THEN << [st |-> p.st, eqn |-> p.eqn] >>
               ELSE TermsOfTrs(p.trs, p.rate, 1)

Init == /\ phase = "ctor"
        /\ slotE = <<>> /\ slotT = <<>> /\ slotB = <<>> /\ tail = <<>>
        /\ slotO = <<>> /\ tailO = <<>>
        /\ procs = <<>> /\ hist = <<>>

Call(k, r, how) ==
    /\ Len(hist) < MaxHist
    /\ r \in Routes(Menu[k])
    /\ procs' = Append(procs, k)
    /\ hist'  = Append(hist, [k |-> k, route |-> r, how |-> how])

(* a process placed in one of the constructor lists *)
CtorArg(k, r) ==
    /\ phase = "ctor"
    /\ Call(k, r, "ctor")
    /\ slotE' = IF Slot(r) = "event"       THEN Append(slotE, Normal(Menu[k])) ELSE slotE
    /\ slotT' = IF Slot(r) = "transition"  THEN Append(slotT, Normal(Menu[k])) ELSE slotT
    /\ slotB' = IF Slot(r) = "birth_death" THEN Append(slotB, Normal(Menu[k])) ELSE slotB
    /\ slotO' = IF Slot(r) = "ode"         THEN slotO \o OdeTerms(Menu[k])     ELSE slotO
    /\ UNCHANGED <<phase, tail, tailO>>

(* the constructor call itself *)
Construct ==
    /\ phase = "ctor"
    /\ phase' = "live"
    /\ UNCHANGED <<slotE, slotT, slotB, tail, slotO, tailO, procs, hist>>

(* add_event / add_transition / add_birth_death / add_ode on the live object *)
AddCall(k, r) ==
    /\ phase = "live"
    /\ Call(k, r, "add")
    /\ tail'  = IF Slot(r) # "ode" THEN Append(tail, Normal(Menu[k])) ELSE tail
    /\ tailO' = IF Slot(r) = "ode" THEN tailO \o OdeTerms(Menu[k])    ELSE tailO
    /\ UNCHANGED <<phase, slotE, slotT, slotB, slotO>>

Next == \/ \E k \in 1..Len(Menu) : \E r \in Routes(Menu[k]) : CtorArg(k, r) \/ AddCall(k, r)
        \/ Construct

Spec == Init /\ [][Next]_vars

---------------------------------------------------------------------------
(* The definition the object holds now (or would hold if constructed now) *)

CurDef == [ns |-> NS, np |-> NP, npx |-> NP, nd |-> ND, n |-> NSym, atoms |-> Atoms, derived |-> Derived,
           events |-> slotE \o slotT \o slotB \o tail,
           odes   |-> slotO \o tailO]

(* the ODE the user meant: a function of the ghost alone *)
OdeOfProcs ==
    [i \in 1..NS |->
        PSumOver({<<j, q>> \in (1..Len(procs)) \X (1..6) :
                      q <= Len(OdeTerms(Menu[procs[j]])) /\ OdeTerms(Menu[procs[j]])[q].st = i},
                 LAMBDA jq : SubstDerived(CurDef, OdeTerms(Menu[procs[jq[1]]])[jq[2]].eqn))]

InvOdeIsVRPlusPure  == OdeIsVRPlusPure(CurDef)
InvRouteIndependent == Ode(CurDef) = OdeOfProcs
InvClosedConserves  == ClosedConserves(CurDef) /\ ClosedColumnsZero(CurDef)
InvReactantSupport  == ReactantIsSupport(CurDef)
InvWellFormed       == WellFormed(CurDef)

(* V.R agrees across routes up to the order of events: the bag of            *)
(* (rate, V column) pairs of the stored events is the bag of the event-routed *)
(* processes -- checked as equality of V.R with the event part of the ghost.  *)
EventProcs == SelectSeq(hist, LAMBDA h : h.route # "ODE")
VROfProcs ==
    [i \in 1..NS |->
        PSumOver({<<j, q>> \in (1..Len(EventProcs)) \X (1..3) : q <= Len(Menu[EventProcs[j].k].trs)},
                 LAMBDA jq : LET p == Menu[EventProcs[jq[1]].k] IN
                             PScale(RInt(Sign(p.trs[jq[2]], i)),
                                    PMul(SubstDerived(CurDef, p.trs[jq[2]].mag), SubstDerived(CurDef, p.rate))))]
InvVRRouteIndependent == VR(CurDef) = VROfProcs

=============================================================================
