SPECIFICATION FairSpec
CONSTANTS
  NSt = 3
  NEv = 2
  V <- V_SIR
  Lo <- Lo3
  Hi <- No3
  NoLim <- NoL
  RatePos <- RP_SIR
  Exact = FALSE
  X0 <- X0_SIR
  T0 = 0
  Horizon = 3
  MaxCount = 2
  MaxDt = 2
INVARIANT TypeOK
INVARIANT InLimits
INVARIANT WalkLaw
INVARIANT TimeStrict
INVARIANT ExactIsOneEventPerStep
INVARIANT StopSound
INVARIANT Conservation
INVARIANT GridLaw
PROPERTY RejectedStepChangesNothing
PROPERTY Terminates
CHECK_DEADLOCK FALSE
