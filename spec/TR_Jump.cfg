SPECIFICATION TraceSpec
CONSTANTS
  NSt <- TraceNSt
  NEv <- TraceNEv
  V <- TraceV
  Lo <- TraceLo
  Hi <- TraceHi
  NoLim <- NoL
  RatePos <- TraceRatePos
  Exact = FALSE
  X0 = 0
  T0 = 0
  Horizon = 0
  MaxCount = 0
  MaxDt = 0
INVARIANT Progress
INVARIANT InLimits
INVARIANT WalkLaw
INVARIANT TimeStrict
INVARIANT ExactIsOneEventPerStep
INVARIANT StopSound
INVARIANT TraceConservation
PROPERTY RejectedStepChangesNothing
CHECK_DEADLOCK FALSE
