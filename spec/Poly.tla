------------------------------- MODULE Poly -------------------------------
(***************************************************************************)
(* Exact Laurent-polynomial algebra over the rationals with differential   *)
(* atoms.  This is the numeric core of the PyGOM specification: every      *)
(* right-hand side, Jacobian, gradient, sensitivity system ... that the    *)
(* other modules talk about is a normal form produced by these operators,  *)
(* so "identically in states, parameters and time" is function equality.   *)
(*                                                                         *)
(*  rational    <<num, den>>, den > 0, gcd(num, den) = 1, zero = <<0,1>>   *)
(*  monomial    a tuple of integer exponents, one slot per symbol          *)
(*              (negative exponents allowed: beta*S*I/N is one monomial)   *)
(*  polynomial  a function  monomial |-> non-zero rational                 *)
(*              (the zero polynomial is the function with empty domain)    *)
(*  atom table  a function  symbol index |-> [kind, arg, pair]; the symbol *)
(*              stands for  H = 1/(1+arg),  E = exp(-arg),  C = cos(arg),  *)
(*              S = sin(arg)  with arg an atom-free polynomial; pair is    *)
(*              the index of the partner symbol of a C / S atom.           *)
(*                                                                         *)
(* Sums are always folded over INDEX sets (never over sets of polynomial   *)
(* values: a set would collapse x + x).                                    *)
(***************************************************************************)
EXTENDS Integers, Sequences, FiniteSets, FiniteSetsExt, SequencesExt, TLC

---------------------------------------------------------------------------
(* Rationals *)

Abs(x) == IF x < 0 THEN -x ELSE x

RECURSIVE GCD(_, _)
GCD(a, b) == IF b = 0 THEN a ELSE GCD(b, a % b)

RZero == <<0, 1>>
ROne  == <<1, 1>>
RInt(k) == <<k, 1>>

RNorm(n, d) ==
    IF n = 0 THEN RZero
    ELSE LET g == GCD(Abs(n), Abs(d))
             s == IF d < 0 THEN -1 ELSE 1
         IN  <<s * (n \div g), s * (d \div g)>>

RIsNorm(r) == /\ r[2] > 0
              /\ (r[1] = 0 => r[2] = 1)
              /\ (r[1] # 0 => GCD(Abs(r[1]), r[2]) = 1)

RNeg(a) == <<-a[1], a[2]>>

RAdd(a, b) ==
    LET g == GCD(a[2], b[2])
    IN  RNorm(a[1] * (b[2] \div g) + b[1] * (a[2] \div g), (a[2] \div g) * b[2])

RMul(a, b) ==
    IF a[1] = 0 \/ b[1] = 0 THEN RZero
    ELSE LET g1 == GCD(Abs(a[1]), b[2])
             g2 == GCD(Abs(b[1]), a[2])
         IN  <<(a[1] \div g1) * (b[1] \div g2), (a[2] \div g2) * (b[2] \div g1)>>

RInv(a) == IF a[1] < 0 THEN <<-a[2], -a[1]>> ELSE <<a[2], a[1]>>
RSub(a, b) == RAdd(a, RNeg(b))
RLt(a, b)  == a[1] * b[2] < b[1] * a[2]
RLe(a, b)  == a[1] * b[2] <= b[1] * a[2]

---------------------------------------------------------------------------
(* Monomials *)

MZero(n)    == [i \in 1..n |-> 0]
MUnit(j, n) == [i \in 1..n |-> IF i = j THEN 1 ELSE 0]
MAdd(a, b)  == [i \in 1..Len(a) |-> a[i] + b[i]]
MSet(m, j, e) == [i \in 1..Len(m) |-> IF i = j THEN e ELSE m[i]]
MInc(m, j)  == MSet(m, j, m[j] + 1)
MDec(m, j)  == MSet(m, j, m[j] - 1)
MPad(m, n)  == [i \in 1..n |-> IF i <= Len(m) THEN m[i] ELSE 0]

---------------------------------------------------------------------------
(* Polynomials *)

PZero == [m \in {} |-> RZero]

PTerm(c, m)  == IF c[1] = 0 THEN PZero ELSE [x \in {m} |-> c]
PConst(c, n) == PTerm(c, MZero(n))
POne(n)      == PConst(ROne, n)
PSym(j, n)   == PTerm(ROne, MUnit(j, n))

PIsZero(p) == DOMAIN p = {}

PCoef(p, m) == IF m \in DOMAIN p THEN p[m] ELSE RZero

PAdd(p, q) ==
    LET D    == DOMAIN p \cup DOMAIN q
        c(m) == RAdd(PCoef(p, m), PCoef(q, m))
        NZ   == {m \in D : c(m)[1] # 0}
    IN  [m \in NZ |-> c(m)]

PScale(r, p) == IF r[1] = 0 THEN PZero ELSE [m \in DOMAIN p |-> RMul(r, p[m])]
PNeg(p)      == [m \in DOMAIN p |-> RNeg(p[m])]
PSub(p, q)   == PAdd(p, PNeg(q))

PMul(p, q) ==
    LET pairs == (DOMAIN p) \X (DOMAIN q)
        mons  == {MAdd(pr[1], pr[2]) : pr \in pairs}
        c(m)  == FoldSet(LAMBDA pr, acc :
                            IF MAdd(pr[1], pr[2]) = m
                            THEN RAdd(acc, RMul(p[pr[1]], q[pr[2]]))
                            ELSE acc,
                         RZero, pairs)
        NZ    == {m \in mons : c(m)[1] # 0}
    IN  [m \in NZ |-> c(m)]

RECURSIVE PPow(_, _, _)
PPow(p, k, n) == IF k = 0 THEN POne(n) ELSE PMul(p, PPow(p, k - 1, n))

(* Sum of f(i) over the index set S *)
PSumOver(S, f(_)) == FoldSet(LAMBDA i, acc : PAdd(acc, f(i)), PZero, S)

(* Re-embed a polynomial over n symbols into one over n2 >= n symbols *)
PPad(p, n, n2) == [m \in {MPad(x, n2) : x \in DOMAIN p} |-> p[SubSeq(m, 1, n)]]

(* Substitute the polynomial q for symbol j (exponents of j must be >= 0) *)
PSubst(p, j, q, n) ==
    PSumOver(DOMAIN p,
             LAMBDA m : PScale(p[m], PMul(PTerm(ROne, MSet(m, j, 0)), PPow(q, m[j], n))))

PUses(p, j) == \E m \in DOMAIN p : m[j] # 0

---------------------------------------------------------------------------
(* Differentiation *)

(* d/ds of an atom-free dependence on the plain symbol s *)
PDiffPlain(p, s) ==
    LET src == {m \in DOMAIN p : m[s] # 0}
    IN  [m \in {MDec(x, s) : x \in src} |-> RMul(p[MInc(m, s)], RInt(m[s] + 1))]

NoAtoms == [j \in {} |-> [kind |-> "sym", arg |-> PZero, pair |-> 0]]

(* d(atom j)/d(arg), as a polynomial in the atoms *)
AtomOuter(j, A, n) ==
    CASE A[j].kind = "H" -> PTerm(RInt(-1), MSet(MZero(n), j, 2))
      [] A[j].kind = "E" -> PTerm(RInt(-1), MUnit(j, n))
      [] A[j].kind = "C" -> PTerm(RInt(-1), MUnit(A[j].pair, n))
      [] A[j].kind = "S" -> PTerm(RInt(1),  MUnit(A[j].pair, n))

(* Full derivative with the chain rule through the atoms of table A *)
PDiff(p, s, A, n) ==
    LET idx == {<<m, j>> \in (DOMAIN p) \X (DOMAIN A) : m[j] # 0}
        chain(mj) ==
            LET m == mj[1]
                j == mj[2]
            IN  PScale(RMul(p[m], RInt(m[j])),
                       PMul(PTerm(ROne, MDec(m, j)),
                            PMul(AtomOuter(j, A, n), PDiffPlain(A[j].arg, s))))
    IN  PAdd(PDiffPlain(p, s), PSumOver(idx, chain))

---------------------------------------------------------------------------
(* Vectors and matrices of polynomials (sequences, sequences of rows) *)

VAdd(u, v)   == [i \in 1..Len(u) |-> PAdd(u[i], v[i])]
VZero(k)     == [i \in 1..k |-> PZero]
MatVec(M, v, nrow) ==
    [i \in 1..nrow |-> PSumOver(1..Len(v), LAMBDA e : PMul(M[i][e], v[e]))]
MatMul(Aa, B, nr, nk, nc) ==
    [i \in 1..nr |-> [j \in 1..nc |-> PSumOver(1..nk, LAMBDA k : PMul(Aa[i][k], B[k][j]))]]
JacobianOf(f, vars, A, n) ==
    [i \in 1..Len(f) |-> [j \in 1..Len(vars) |-> PDiff(f[i], vars[j], A, n)]]
VSum(v) == PSumOver(1..Len(v), LAMBDA i : v[i])

---------------------------------------------------------------------------
(* Evaluation at a rational point for the plain symbols (atoms must not occur) *)

RECURSIVE RPow(_, _)
RPow(r, k) == IF k = 0 THEN ROne
              ELSE IF k < 0 THEN RPow(RInv(r), -k)
              ELSE RMul(r, RPow(r, k - 1))

MEval(m, pt) == FoldSet(LAMBDA i, acc : RMul(acc, RPow(pt[i], m[i])), ROne, 1..Len(m))
PEval(p, pt) == FoldSet(LAMBDA m, acc : RAdd(acc, RMul(p[m], MEval(m, pt))), RZero, DOMAIN p)

---------------------------------------------------------------------------
(* Conversion from / to term lists  <<num, den, exponents>>  (the JSON form) *)

PFromTerms(T) ==
    PSumOver(1..Len(T), LAMBDA k : PTerm(RNorm(T[k][1], T[k][2]), T[k][3]))

PToTerms(p) ==
    LET s == SetToSeq(DOMAIN p)
    IN  [k \in 1..Len(s) |-> <<p[s[k]][1], p[s[k]][2], s[k]>>]

VToTerms(v)  == [i \in 1..Len(v) |-> PToTerms(v[i])]
MToTerms(M)  == [i \in 1..Len(M) |-> VToTerms(M[i])]

PIsNormal(p) == \A m \in DOMAIN p : RIsNorm(p[m]) /\ p[m][1] # 0

=============================================================================
