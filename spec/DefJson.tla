------------------------------ MODULE DefJson ------------------------------
(* Conversion of the JSON form of a model definition (written by the harness) *)
(* into the definition record of ModelSem.                                     *)
EXTENDS ModelSem

AtomTable(j) ==
    [a \in {j.atoms[k].idx : k \in 1..Len(j.atoms)} |->
        LET k == CHOOSE k \in 1..Len(j.atoms) : j.atoms[k].idx = a
        IN  [kind |-> j.atoms[k].kind, arg |-> PFromTerms(j.atoms[k].arg), pair |-> j.atoms[k].pair]]

ToDef(j) ==
    [ns |-> j.ns, np |-> j.np, npx |-> j.np, nd |-> j.nd, n |-> j.n,
     atoms   |-> AtomTable(j),
     derived |-> [k \in 1..Len(j.derived) |-> PFromTerms(j.derived[k])],
     events  |-> [e \in 1..Len(j.events) |->
                    [rate |-> PFromTerms(j.events[e].rate),
                     trs  |-> [k \in 1..Len(j.events[e].trs) |->
                                 [ty  |-> j.events[e].trs[k].ty,
                                  o   |-> j.events[e].trs[k].o,
                                  d   |-> j.events[e].trs[k].d,
                                  mag |-> PFromTerms(j.events[e].trs[k].mag)]]]],
     odes    |-> [k \in 1..Len(j.odes) |-> [st |-> j.odes[k].st, eqn |-> PFromTerms(j.odes[k].eqn)]]]
=============================================================================
