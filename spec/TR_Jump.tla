------------------------------ MODULE TR_Jump ------------------------------
(***************************************************************************)
(* Trace validation (mode A) of stochastic runs of ONE model against       *)
(* Jump.tla.  The trace file (env TRACE_FILE) holds the model definition,  *)
(* the parameter values (rationals), the declared limits and a list of     *)
(* runs; each run is the sequence of attempts recorded from the real       *)
(* firstReaction / tauLeap calls followed by what solve_stochast returned. *)
(*                                                                         *)
(* V is recomputed by the specification from the definition; rates are the *)
(* specification's rate polynomials evaluated exactly in Q at the logged   *)
(* state.  Times, draw values are dense ranks (order is all that matters). *)
(*                                                                         *)
(* A first-reaction attempt additionally carries the intercepted            *)
(* exponential draws; DrawsOK is the first-reaction mechanism of C05:      *)
(* exactly one draw per event with positive rate, none otherwise,          *)
(* scale * rate = 1, the chosen event is the unique minimum and the        *)
(* returned waiting time is that minimum.                                  *)
(***************************************************************************)
EXTENDS Jump, DefJson, Json, IOUtils

Tr == JsonDeserialize(IOEnv.TRACE_FILE)
D  == ToDef(Tr.def)

NoL == -999999
TraceNSt == D.ns
TraceNEv == NE(D)
(* integer state-change matrix from the definition (magnitudes are numeric in simulated models) *)
IntOf(p) == IF PIsZero(p) THEN 0 ELSE p[MZero(D.n)][1]
TraceV  == [i \in 1..D.ns |-> [e \in 1..NE(D) |-> IntOf(VEntry(D, i, e))]]
TraceLo == [i \in 1..D.ns |-> IF Tr.lims[i][1] = 0 THEN NoL ELSE Tr.lims[i][2]]
TraceHi == [i \in 1..D.ns |-> IF Tr.lims[i][3] = 0 THEN NoL ELSE Tr.lims[i][4]]
Rates   == RateVec(D)
PointOf(y) == [j \in 1..D.n |->
                 IF j <= D.ns THEN RInt(y[j])
                 ELSE IF j > D.ns + 1 /\ j <= D.ns + 1 + D.np THEN <<Tr.theta[j - D.ns - 1][1], Tr.theta[j - D.ns - 1][2]>>
                 ELSE RZero]
RateAt(e, y)    == PEval(Rates[e], PointOf(y))
TraceRatePos(e, y) == RLt(RZero, RateAt(e, y))

VARIABLES tid, l
tvars == <<vars, tid, l>>

Run    == Tr.runs[tid]
NEvts  == Len(Run.events)
Ev     == Run.events[l]
IsEvent(name) == l <= NEvts /\ Ev.ev = name /\ l' = l + 1 /\ tid' = tid

ToRun(r) == [exact |-> r.exact, x0 |-> r.x0, t0 |-> r.t0r, horizon |-> r.horizonr]

(* a run whose path was rejected upstream can still have the table it returned judged on its own (gridonly): the
   validation then starts at the Gridded event *)
GridAt(r) == CHOOSE k \in 1..Len(r.events) : r.events[k].ev = "Gridded"
TraceInit == /\ tid \in 1..Len(Tr.runs)
             /\ l = IF Tr.runs[tid].gridonly THEN GridAt(Tr.runs[tid]) ELSE 1
             /\ InitRun(ToRun(Tr.runs[tid]))

(* ---- the first-reaction mechanism (C05) ---- *)
DrawsOK(ev, y) ==
    /\ \A e \in Events :
          IF TraceRatePos(e, y)
          THEN Cardinality({k \in 1..Len(ev.draws) : ev.draws[k].e = e}) = 1
          ELSE \A k \in 1..Len(ev.draws) : ev.draws[k].e # e
    /\ \A k \in 1..Len(ev.draws) :
          /\ ev.draws[k].e \in Events
          /\ ev.draws[k].global                                  \* drawn from the global stream
          /\ RNorm(ev.draws[k].scale[1], ev.draws[k].scale[2]) = RInv(RateAt(ev.draws[k].e, y))   \* scale * rate = 1, without forming a product (32-bit integers)
    /\ \E k \in 1..Len(ev.draws) :
          /\ ev.draws[k].e = ev.chosen
          /\ ev.draws[k].vr = 1                                  \* the minimum ...
          /\ \A k2 \in 1..Len(ev.draws) : k2 # k => ev.draws[k2].vr > 1   \* ... and the only one
          /\ ev.dtr = ev.draws[k].vr                             \* waiting time = that minimum

TrFR ==
    /\ IsEvent("FR")
    /\ Ev.xb = x
    /\ (Run.checkdraws => DrawsOK(Ev, x))
    /\ IF Ev.ok
       THEN /\ Ev.tr > t
            /\ FRAccept(Ev.chosen, Ev.tr - t)
            /\ x' = Ev.xa
            /\ Ev.counts = Unit(Ev.chosen)
       ELSE /\ FRRejectStop(Ev.chosen)
            /\ Ev.xa = x /\ Ev.tr = t

TrTL ==
    /\ IsEvent("TL")
    /\ Ev.xb = x
    /\ IF Ev.ok
       THEN /\ Ev.tr > t
            /\ TLAccept(Ev.counts, Ev.tr - t)
            /\ x' = Ev.xa
       ELSE /\ TLRejectFallback(Ev.counts)
            /\ Ev.xa = x /\ Ev.tr = t

(* an attempt that found every rate zero *)
TrZero == IsEvent("Zero") /\ Ev.xb = x /\ (ZeroRatesStop \/ TLZeroFallback)

(* the loop of _jump has ended *)
TrEnd ==
    /\ IsEvent("End")
    /\ \/ (pc = "done" /\ UNCHANGED vars)
       \/ HorizonStop

(* what solve_stochast returned for a scalar horizon: the raw path *)
TrReturn ==
    /\ IsEvent("Return") /\ pc = "done"
    /\ Len(Ev.X) = Len(path) + 1 /\ Len(Ev.T) = Len(path) + 1 /\ Len(Ev.J) = Len(path)
    /\ Ev.X[1] = run.x0 /\ Ev.T[1] = run.t0
    /\ \A k \in 1..Len(path) : Ev.X[k + 1] = path[k].x /\ Ev.T[k + 1] = path[k].t /\ Ev.J[k] = path[k].c
    /\ UNCHANGED vars

(* what it returned for a grid of output times (ranks g[1] < g[2] < ...) *)
TrGridded ==
    /\ IsEvent("Gridded") /\ pc = "done" /\ ~Run.gridonly
    /\ Len(Ev.rows) = Len(Ev.grid)
    /\ (Ev.grid[1] = run.t0 => Ev.rows[1] = run.x0)
    /\ Len(Ev.counts) = Len(Ev.grid) - 1
    /\ run.exact =>
          /\ \A k \in 1..Len(Ev.grid) : Ev.rows[k] = RowAt(path, Ev.grid[k])
          /\ \A k \in 1..(Len(Ev.grid) - 1) :
                /\ Ev.counts[k] = CountsIn(path, Ev.grid[k], Ev.grid[k + 1])
                /\ Ev.rows[k + 1] = Apply(Ev.rows[k], Ev.counts[k])
    /\ UNCHANGED vars

(* the clauses of C15 that do not mention the path: one row per requested time, the first row the initial state, and in
   exact mode non-negative counts with consecutive rows differing by V . counts *)
TrGriddedAlone ==
    /\ IsEvent("Gridded") /\ Run.gridonly
    /\ Len(Ev.rows) = Len(Ev.grid)
    /\ (Ev.grid[1] = run.t0 => Ev.rows[1] = run.x0)
    /\ Len(Ev.counts) = Len(Ev.grid) - 1
    /\ run.exact =>
          \A k \in 1..(Len(Ev.grid) - 1) :
                /\ \A e \in Events : Ev.counts[k][e] >= 0
                /\ Ev.rows[k + 1] = Apply(Ev.rows[k], Ev.counts[k])
    /\ UNCHANGED vars

TraceNext == TrFR \/ TrTL \/ TrZero \/ TrEnd \/ TrReturn \/ TrGridded \/ TrGriddedAlone
TraceSpec == TraceInit /\ [][TraceNext]_tvars

(* progress report: the harness takes, per run, the largest l printed; a run is accepted iff it reaches NEvts + 1 *)
Progress == PrintT(<<"AT", tid, l, NEvts + 1>>)

(* per-state forms of the Jump invariants (the whole path is compared once, in TrReturn) *)
InLimitsNow == InLim(x)
ClosedModel == Tr.closed
TraceConservation == ClosedModel => (ColumnsZero /\ Total(x) = Total(run.x0))
=============================================================================
