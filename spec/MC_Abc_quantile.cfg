SPECIFICATION Spec
CONSTANTS
  N = 2
  MaxGen = 3
  MaxRank = 3
  Mode = "quantile"
INVARIANT AcceptedUnderTol
INVARIANT NothingSurvivesARestart
INVARIANT TolerancesNeverIncrease
INVARIANT PosteriorComplete
CHECK_DEADLOCK FALSE
