SPECIFICATION FairSpec
CONSTANTS
  NSt = 1
  NEv = 2
  V <- V_BD2
  Lo <- Lo1
  Hi <- Hi_BD2
  NoLim <- NoL
  RatePos <- RP_BD2
  Exact = FALSE
  X0 <- X0_BD2
  T0 = 0
  Horizon = 4
  MaxCount = 2
  MaxDt = 1
INVARIANT TypeOK
INVARIANT InLimits
INVARIANT WalkLaw
INVARIANT TimeStrict
INVARIANT ExactIsOneEventPerStep
INVARIANT StopSound
INVARIANT Conservation
INVARIANT GridLaw
PROPERTY RejectedStepChangesNothing
PROPERTY Terminates
CHECK_DEADLOCK FALSE
