SPECIFICATION PSpec
CONSTANTS
  NS = 2
  NP = 3
  ND = 1
  NSym = 8
  NPX = 3
  NDX = 1
  NP0 = 2
  Atoms <- MCAtoms
  Derived <- MCDerived
  Menu <- MCMenu
  Needs <- MCNeeds
  Base <- MCBase
  MaxHist = 99
  MaxObs = 14
  MaxMut = 3
INVARIANT PInvWellFormed
INVARIANT PInvOdeIsVR
INVARIANT Dump
CHECK_DEADLOCK FALSE
