------------------------------ MODULE EvalCache ------------------------------
(***************************************************************************)
(* Layer L3, design level: the compile-canary mechanism that implements    *)
(* "evaluators are functions of the current definition" (PygomModel).      *)
(*                                                                         *)
(*   ver      version of the model definition (bumped by every mutator)    *)
(*   flag[e]  canary of evaluator e: TRUE = must be recompiled             *)
(*   snap[e]  definition version evaluator e was compiled from (-1: never) *)
(*   ret      what the last evaluation returned: the version it reflects   *)
(*                                                                         *)
(* A mutator m trips every canary iff Trips[m].  An evaluation recompiles  *)
(* iff it was never compiled or its canary is tripped; recompiling the     *)
(* master evaluator trips all canaries before resetting its own (this is   *)
(* what add_compiled_sympy_object does).  The refinement to the abstract   *)
(* level is  Fresh: every evaluation returns the current version.          *)
(***************************************************************************)
EXTENDS Integers, FiniteSets, TLC

CONSTANTS Evals, Master, Mutators, Trips, MaxVer
ASSUME Master \in Evals /\ Trips \in [Mutators -> BOOLEAN]

VARIABLES ver, flag, snap, ret
vars == <<ver, flag, snap, ret>>

Init == /\ ver = 0
        /\ flag = [e \in Evals |-> TRUE]
        /\ snap = [e \in Evals |-> -1]
        /\ ret = [e |-> Master, v |-> 0, fresh |-> TRUE]

Mutate(m) ==
    /\ ver < MaxVer
    /\ ver' = ver + 1
    /\ flag' = IF Trips[m] THEN [e \in Evals |-> TRUE] ELSE flag
    /\ UNCHANGED <<snap, ret>>

Evaluate(e) ==
    LET recompile == snap[e] = -1 \/ flag[e]
        snap2 == IF recompile THEN [snap EXCEPT ![e] = ver] ELSE snap
    IN  /\ snap' = snap2
        /\ flag' = IF ~recompile THEN flag
                   ELSE IF e = Master THEN [x \in Evals |-> x # e]
                   ELSE [flag EXCEPT ![e] = FALSE]
        /\ ret' = [e |-> e, v |-> snap2[e], fresh |-> snap2[e] = ver]
        /\ UNCHANGED ver

Next == (\E m \in Mutators : Mutate(m)) \/ (\E e \in Evals : Evaluate(e))
Spec == Init /\ [][Next]_vars

(* refinement to PygomModel: an evaluation never returns a stale version *)
Fresh == ret.fresh
(* inductive strengthening (also discharged by Apalache for unbounded histories) *)
IndInv == \A e \in Evals : (~flag[e] /\ snap[e] # -1) => snap[e] = ver
TypeOK == /\ ver \in 0..MaxVer
          /\ flag \in [Evals -> BOOLEAN]
          /\ snap \in [Evals -> -1..MaxVer]
=============================================================================
