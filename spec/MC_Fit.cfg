SPECIFICATION Spec
CONSTANTS
  Models <- MCModels
  NParams <- MCNParams
  Classes <- MCClasses
  MaxFree = 2
  DumpOn = TRUE
INVARIANT Dump
CHECK_DEADLOCK FALSE
