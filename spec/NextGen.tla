------------------------------ MODULE NextGen ------------------------------
(***************************************************************************)
(* Beyond the listed properties: the next-generation decomposition of      *)
(* epi_analysis.disease_progression_matrices.                              *)
(*                                                                         *)
(* For a set Dis of disease states, the rate of NEW infections into         *)
(* disease state i is the sum of magnitude * rate over the between-state    *)
(* transitions that lead from a state outside Dis into i; everything else   *)
(* that happens to i is progression:                                        *)
(*     F_i = NewInfection(D, Dis, i),     V_i = F_i - f_i                   *)
(* (f the right-hand side of ModelSem), and the matrices handed to the      *)
(* eigenvalue computation are the Jacobians of F and V with respect to the  *)
(* disease states, rows and columns in model order of the disease states.   *)
(***************************************************************************)
EXTENDS ModelSem

DisSeq(D, Dis) == SetToSortSeq({i \in 1..D.ns : i \in Dis}, <)

IsNewInfection(tr, Dis, i) == tr.ty = "T" /\ tr.o \notin Dis /\ tr.d = i

NewInfection(D, Dis, i) ==
    PSumOver({<<e, k>> \in (1..NE(D)) \X (1..3) :
                 k <= Len(D.events[e].trs) /\ IsNewInfection(D.events[e].trs[k], Dis, i)},
             LAMBDA ek : PMul(Mag(D, D.events[ek[1]].trs[ek[2]]), Rate(D, ek[1])))

FVec(D, Dis) == LET s == DisSeq(D, Dis) IN [a \in 1..Len(s) |-> NewInfection(D, Dis, s[a])]
VVec(D, Dis) == LET s == DisSeq(D, Dis) IN [a \in 1..Len(s) |-> PSub(NewInfection(D, Dis, s[a]), Ode(D)[s[a]])]
DF(D, Dis) == LET s == DisSeq(D, Dis) F == FVec(D, Dis) IN [a \in 1..Len(s) |-> [b \in 1..Len(s) |-> DState(D, F[a], s[b])]]
DV(D, Dis) == LET s == DisSeq(D, Dis) V == VVec(D, Dis) IN [a \in 1..Len(s) |-> [b \in 1..Len(s) |-> DState(D, V[a], s[b])]]

(* laws (checked by TLC on every definition reachable in MC_ModelDef, for every non-empty proper subset of the states) *)
(* the decomposition loses nothing: F - V is the right-hand side of the disease states, and so are the Jacobians *)
Decomposes(D, Dis) ==
    LET s == DisSeq(D, Dis)
    IN  /\ \A a \in 1..Len(s) : PSub(FVec(D, Dis)[a], VVec(D, Dis)[a]) = Ode(D)[s[a]]
        /\ \A a, b \in 1..Len(s) : PSub(DF(D, Dis)[a][b], DV(D, Dis)[a][b]) = Jac(D)[s[a]][s[b]]
(* with no disease-free origin there is no new infection at all *)
NoSourceNoInfection(D, Dis) ==
    (\A e \in 1..NE(D) : \A k \in 1..Len(D.events[e].trs) :
        D.events[e].trs[k].ty = "T" => D.events[e].trs[k].o \in Dis)
    => \A a \in 1..Len(DisSeq(D, Dis)) : PIsZero(FVec(D, Dis)[a])
NextGenLaws(D) == \A Dis \in (SUBSET (1..D.ns)) \ {{}, 1..D.ns} : Decomposes(D, Dis) /\ NoSourceNoInfection(D, Dis)
=============================================================================
