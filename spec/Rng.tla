-------------------------------- MODULE Rng --------------------------------
(***************************************************************************)
(* Random-stream discipline of serial simulation (C16).                    *)
(*                                                                         *)
(* There is ONE global stream.  Seeding it with s puts it into the state   *)
(* determined by s; every draw advances it deterministically.  A run of    *)
(* configuration c (a stochastic simulation or a random-parameter          *)
(* simulation with all its options) takes its randomness from a SOURCE:    *)
(*   "global"  the global stream (what the property demands of every       *)
(*             serial run)                                                 *)
(*   "local"   a generator created from a constant seed inside the run     *)
(*   "fresh"   a generator seeded from the operating system                *)
(* The abstract state of the global stream is <<seed, hist>>: the seed and  *)
(* the runs performed since seeding -- "outputs are a function of the seed, *)
(* the configuration and the calls since seeding".                          *)
(*                                                                         *)
(* out records what each run returned, as an abstract value:               *)
(*   <<"g", seed, hist, c>>    determined by the global stream             *)
(*   <<"l", c>>                determined by the configuration alone       *)
(*   <<"f", k>>                a fresh token, different every time         *)
(***************************************************************************)
EXTENDS Integers, Sequences, FiniteSets, TLC

CONSTANTS Seeds, Configs,
          Source,        \* Source[c]: where configuration c takes its randomness from
          Draws,         \* Draws[c]: does configuration c draw at all?
          MaxLen

VARIABLES seed, hist,    \* the global stream: last seed, configurations run since
          log,           \* history: sequence of [seed, hist, c, out]
          fresh          \* counter for fresh tokens
rvars == <<seed, hist, log, fresh>>

NoSeed == 0
Init == seed = NoSeed /\ hist = <<>> /\ log = <<>> /\ fresh = 0

SeedIt(s) == /\ Len(log) < MaxLen
             /\ seed' = s /\ hist' = <<>>
             /\ UNCHANGED <<log, fresh>>

OutOf(c) == CASE ~Draws[c]            -> <<"c", c>>
              [] Source[c] = "global" -> <<"g", seed, hist, c>>
              [] Source[c] = "local"  -> <<"l", c>>
              [] Source[c] = "fresh"  -> <<"f", fresh>>

Run(c) == /\ seed # NoSeed /\ Len(log) < MaxLen
          /\ log' = Append(log, [seed |-> seed, hist |-> hist, c |-> c, out |-> OutOf(c)])
          /\ hist' = IF Draws[c] /\ Source[c] = "global" THEN Append(hist, c) ELSE hist
          /\ fresh' = IF Source[c] = "fresh" THEN fresh + 1 ELSE fresh
          /\ UNCHANGED seed

Next == (\E s \in Seeds : SeedIt(s)) \/ (\E c \in Configs : Run(c))
Spec == Init /\ [][Next]_rvars

(* C16, first clause: same seed, same calls since seeding, same configuration => same output *)
Reproducible ==
    \A i, j \in 1..Len(log) :
        (log[i].seed = log[j].seed /\ log[i].hist = log[j].hist /\ log[i].c = log[j].c) => log[i].out = log[j].out
(* second clause: a different seed changes the output of every run that draws *)
SeedSensitive ==
    \A i, j \in 1..Len(log) :
        (log[i].seed # log[j].seed /\ log[i].hist = log[j].hist /\ log[i].c = log[j].c /\ Draws[log[i].c])
            => log[i].out # log[j].out
=============================================================================
