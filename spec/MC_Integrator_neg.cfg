SPECIFICATION Spec
CONSTANTS
  Methods <- MCMethods
  CopyRows = FALSE
  NT = 3
INVARIANT RowsAreTheRequestedPoints
PROPERTY RowsImmutable
CHECK_DEADLOCK FALSE
