------------------------------ MODULE Decompose ------------------------------
(***************************************************************************)
(* Beyond the listed properties: the decomposition of a model given by     *)
(* explicit ODEs into compartmental processes (get_unrolled_obj,           *)
(* get_transitions_from_ode, get_bd_from_ode).                             *)
(*                                                                         *)
(* f is the ODE in normal form (one polynomial per state).  Monomial by    *)
(* monomial, an outflow  -c m  of state i is matched with an inflow  +c m  *)
(* of another state j (same monomial, same magnitude): a between-state     *)
(* transition i -> j at rate c m.  What cannot be matched is a birth       *)
(* (positive term) or a death (negative term) of its state.  The           *)
(* decomposition is not unique; what every decomposition owes its caller   *)
(* is that the processes, read back through ModelSem, give f again.        *)
(***************************************************************************)
EXTENDS ModelSem

Monos(f) == UNION {DOMAIN f[i] : i \in 1..Len(f)}

(* greedy matching for one monomial m: repeatedly pair the lowest-numbered state with a negative coefficient   *)
(* with the lowest-numbered state holding the opposite coefficient                                             *)
RECURSIVE MatchMono(_, _, _)
MatchMono(f, m, used) ==
    LET neg == {i \in 1..Len(f) : i \notin used /\ m \in DOMAIN f[i] /\ f[i][m][1] < 0
                                   /\ \E j \in 1..Len(f) : j \notin used /\ j # i /\ m \in DOMAIN f[j] /\ f[j][m] = RNeg(f[i][m])}
    IN  IF neg = {} THEN {}
        ELSE LET i == Min(neg)
                 j == Min({j \in 1..Len(f) : j \notin used /\ j # i /\ m \in DOMAIN f[j] /\ f[j][m] = RNeg(f[i][m])})
             IN  {[ty |-> "T", o |-> i, d |-> j, m |-> m, c |-> f[j][m]]} \cup MatchMono(f, m, used \cup {i, j})

Transitions(f) == UNION {MatchMono(f, m, {}) : m \in Monos(f)}
Matched(f, i, m) == \E tr \in Transitions(f) : tr.m = m /\ (tr.o = i \/ tr.d = i)
BirthsDeaths(f) ==
    {[ty |-> IF f[i][m][1] > 0 THEN "B" ELSE "D", o |-> i, d |-> i, m |-> m,
      c |-> IF f[i][m][1] > 0 THEN f[i][m] ELSE RNeg(f[i][m])] :
        <<i, m>> \in {im \in (1..Len(f)) \X Monos(f) : im[2] \in DOMAIN f[im[1]] /\ ~Matched(f, im[1], im[2])}}
Processes(f) == Transitions(f) \cup BirthsDeaths(f)

(* reading the processes back: every rate c m is positive-coefficient by construction *)
Effect(p, i) == CASE p.ty = "T" -> (IF i = p.o THEN -1 ELSE IF i = p.d THEN 1 ELSE 0)
                  [] p.ty = "B" -> (IF i = p.o THEN 1 ELSE 0)
                  [] p.ty = "D" -> (IF i = p.o THEN -1 ELSE 0)
Recompose(f) ==
    LET ps == SetToSeq(Processes(f))
    IN  [i \in 1..Len(f) |-> PSumOver(1..Len(ps), LAMBDA k : PScale(RInt(Effect(ps[k], i)), PTerm(ps[k].c, ps[k].m)))]

RoundTrip(f)      == Recompose(f) = f
RatesPositive(f)  == \A p \in Processes(f) : p.c[1] > 0
=============================================================================
