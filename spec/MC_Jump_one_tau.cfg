SPECIFICATION FairSpec
CONSTANTS
  NSt = 1
  NEv = 1
  V <- V_ONE
  Lo <- Lo1
  Hi <- No1
  NoLim <- NoL
  RatePos <- RP_ONE
  Exact = FALSE
  X0 <- X0_ONE
  T0 = 0
  Horizon = 4
  MaxCount = 2
  MaxDt = 2
INVARIANT TypeOK
INVARIANT InLimits
INVARIANT WalkLaw
INVARIANT TimeStrict
INVARIANT ExactIsOneEventPerStep
INVARIANT StopSound
INVARIANT Conservation
INVARIANT GridLaw
PROPERTY RejectedStepChangesNothing
PROPERTY Terminates
CHECK_DEADLOCK FALSE
