------------------------------ MODULE LossKernel ------------------------------
(***************************************************************************)
(* The derivative kernels of the five loss classes as exact normal forms   *)
(* (Poly) in the symbols  1 y (datum), 2 m (model value), 3 w (weight),    *)
(* 4 s (spread: sigma / shape a / dispersion k) and the atom               *)
(* 5 H = 1/(1 + m/s) = s/(s + m)  needed by the negative binomial.         *)
(*   D1(c) = d loss_c / d m  per cell,  D2(c) = d D1(c) / d m              *)
(* For the square and normal classes the cell loss is itself a polynomial  *)
(* (up to a constant) and D1 is obtained by differentiating it; for the    *)
(* other three the cell loss contains log / lgamma (reference kernels,     *)
(* DESIGN 4.3) and D1 is stated directly:                                  *)
(*   Poisson   1 - y/m        Gamma   s (m - y) / m^2                      *)
(*   NegBinom  (m - y)/m * s/(s + m)                                       *)
(* The weights enter only where the class's cost uses them (square,        *)
(* normal): cost cell = (w (y - m))^2, resp. (w (y - m))^2 / (2 s^2).      *)
(***************************************************************************)
EXTENDS Poly
KN == 5
kY == PSym(1, KN)  kM == PSym(2, KN)  kW == PSym(3, KN)  kS == PSym(4, KN)  kH == PSym(5, KN)
KAtoms == [j \in {5} |-> [kind |-> "H", arg |-> PMul(kM, PTerm(ROne, MSet(MZero(KN), 4, -1))), pair |-> 0]]
Classes == {"Square", "Normal", "Poisson", "Gamma", "NegBinom"}
UsesWeights(c) == c \in {"Square", "Normal"}
HasSpread(c)   == c \in {"Normal", "Gamma", "NegBinom"}

wr2 == LET r == PMul(kW, PSub(kY, kM)) IN PMul(r, r)
PolyPart(c) == CASE c = "Square" -> wr2
                 [] c = "Normal" -> PScale(<<1, 2>>, PMul(wr2, PTerm(ROne, MSet(MZero(KN), 4, -2))))
D1(c) ==
    CASE c \in {"Square", "Normal"} -> PDiff(PolyPart(c), 2, KAtoms, KN)
      [] c = "Poisson"  -> PSub(POne(KN), PMul(kY, PTerm(ROne, MSet(MZero(KN), 2, -1))))
      [] c = "Gamma"    -> PMul(kS, PMul(PSub(kM, kY), PTerm(ROne, MSet(MZero(KN), 2, -2))))
      [] c = "NegBinom" -> PMul(PMul(PSub(kM, kY), PTerm(ROne, MSet(MZero(KN), 2, -1))), kH)
D2(c) == PDiff(D1(c), 2, KAtoms, KN)

(* every kernel is stationary where the model reproduces the datum *)
StationaryAtData(c) == PIsZero(PSubst(D1(c), 1, kM, KN))
(* known closed forms of the second derivatives *)
D2Square == D2("Square") = PScale(RInt(2), PMul(kW, kW))
D2Poisson == D2("Poisson") = PMul(kY, PTerm(ROne, MSet(MZero(KN), 2, -2)))
KernelLaws == (\A c \in Classes : StationaryAtData(c)) /\ D2Square /\ D2Poisson
=============================================================================
