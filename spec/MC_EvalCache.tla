---- MODULE MC_EvalCache ----
EXTENDS EvalCache
\* the mutators of the implementation and whether they must trip the canaries
MCMutators == {"add_transition", "add_event", "add_birth_death", "add_ode", "add_param", "add_derived"}
AllTrip == [m \in MCMutators |-> TRUE]
\* negative control: the pinned tree's add_ode did not trip (defect D4)
NoOdeTrip == [m \in MCMutators |-> m # "add_ode"]
MCEvals == {"ode", "jacobian", "grad", "vMat"}
====
