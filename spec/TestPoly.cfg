
