--------------------------- MODULE APA_EvalCache ---------------------------
(***************************************************************************)
(* The canary design of EvalCache.tla with type annotations for Apalache   *)
(* and WITHOUT a bound on the definition version: IndInv is shown to be    *)
(* inductive (IndInit => IndInv at length 0; IndInv /\ Next => IndInv' at  *)
(* length 1) and to imply Fresh, i.e. the refinement holds for histories   *)
(* of any length.  TripOde = FALSE is the negative control (D4).           *)
(***************************************************************************)
EXTENDS Integers

CONSTANT
    \* @type: Bool;
    TripOde

VARIABLES
    \* @type: Int;
    ver,
    \* @type: Str -> Bool;
    flag,
    \* @type: Str -> Int;
    snap,
    \* @type: { e: Str, v: Int, fresh: Bool };
    ret

Evals == {"ode", "jacobian", "grad", "vMat"}
Master == "ode"
Mutators == {"add_transition", "add_event", "add_birth_death", "add_ode", "add_param", "add_derived"}
Trips(m) == IF m = "add_ode" THEN TripOde ELSE TRUE

CInitTrip == TripOde = TRUE
CInitNoTrip == TripOde = FALSE

Mutate(m) ==
    /\ ver' = ver + 1
    /\ flag' = IF Trips(m) THEN [e \in Evals |-> TRUE] ELSE flag
    /\ UNCHANGED <<snap, ret>>

Evaluate(e) ==
    LET recompile == snap[e] = -1 \/ flag[e]
        snap2 == IF recompile THEN [snap EXCEPT ![e] = ver] ELSE snap
    IN  /\ snap' = snap2
        /\ flag' = IF ~recompile THEN flag
                   ELSE IF e = Master THEN [x \in Evals |-> x # e]
                   ELSE [flag EXCEPT ![e] = FALSE]
        /\ ret' = [e |-> e, v |-> snap2[e], fresh |-> snap2[e] = ver]
        /\ UNCHANGED ver

Next == (\E m \in Mutators : Mutate(m)) \/ (\E e \in Evals : Evaluate(e))

IndInv ==
    /\ ver >= 0
    /\ \A e \in Evals : snap[e] >= -1 /\ snap[e] <= ver
    /\ \A e \in Evals : (~flag[e] /\ snap[e] # -1) => snap[e] = ver
    /\ ret.fresh

Init == /\ ver = 0
        /\ flag = [e \in Evals |-> TRUE]
        /\ snap = [e \in Evals |-> -1]
        /\ ret = [e |-> Master, v |-> 0, fresh |-> TRUE]

(* an arbitrary state satisfying the invariant *)
IndInit ==
    /\ ver \in Int
    /\ flag \in [Evals -> BOOLEAN]
    /\ snap \in [Evals -> Int]
    /\ \E e \in Evals : \E v \in Int : \E f \in BOOLEAN : ret = [e |-> e, v |-> v, fresh |-> f]
    /\ IndInv
=============================================================================
