SPECIFICATION TraceSpec
CONSTANTS
  Seeds <- TraceSeeds
  Configs <- TraceConfigs
  Source <- TraceSource
  Draws <- TraceDraws
  MaxLen = 1000
INVARIANT Progress
CHECK_DEADLOCK FALSE
