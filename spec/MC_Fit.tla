------------------------------- MODULE MC_Fit -------------------------------
(* enumeration of the configuration matrix (initial states) and validation of recorded outcomes *)
EXTENDS Fit, Json, IOUtils
MCModels  == {"SIR_norm", "SIS", "SEIR", "Lotka_Volterra", "FitzHugh", "vanDerPol"}
MCNParams == [m \in MCModels |-> CASE m = "SIR_norm" -> 2 [] m = "SIS" -> 2 [] m = "SEIR" -> 3
                                   [] m = "Lotka_Volterra" -> 4 [] m = "FitzHugh" -> 3 [] m = "vanDerPol" -> 1]
MCClasses == {"Square", "Normal", "Poisson", "Gamma", "NegBinom"}
ASSUME BoundsLaw
CONSTANT DumpOn
Dump == DumpOn => PrintT(ToJson(cfg))

(* trace validation: one recorded outcome per configuration *)
Tr == IF DumpOn THEN [outcomes |-> <<>>] ELSE JsonDeserialize(IOEnv.TRACE_FILE)
VARIABLE tid
Spec == Init /\ tid = 0 /\ [][FALSE]_<<fvars, tid>>
TInit == /\ tid \in 1..Len(Tr.outcomes)
         /\ cfg = Tr.outcomes[tid].cfg /\ phase = "chosen" /\ outcome = <<>>
TNext == /\ FitReturns(Tr.outcomes[tid].outcome)
         /\ FitPost(Tr.outcomes[tid].outcome)
         /\ tid' = tid
TSpec == TInit /\ [][TNext]_<<fvars, tid>>
Progress == PrintT(<<"AT", tid, IF phase = "fitted" THEN 2 ELSE 1, 2>>)
=============================================================================
