SPECIFICATION FairSpec
CONSTANTS
  NSt = 2
  NEv = 2
  V <- V_MT
  Lo <- Lo_MT
  Hi <- Hi_MT
  NoLim <- NoL
  RatePos <- RP_MT
  Exact = TRUE
  X0 <- X0_MT
  T0 = 0
  Horizon = 4
  MaxCount = 1
  MaxDt = 2
INVARIANT TypeOK
INVARIANT InLimits
INVARIANT WalkLaw
INVARIANT TimeStrict
INVARIANT ExactIsOneEventPerStep
INVARIANT StopSound
INVARIANT Conservation
INVARIANT GridLaw
PROPERTY RejectedStepChangesNothing
PROPERTY Terminates
CHECK_DEADLOCK FALSE
