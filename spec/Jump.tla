-------------------------------- MODULE Jump --------------------------------
(***************************************************************************)
(* Layer L6: the stepping machine of SimulateOde._jump (solve_stochast).   *)
(* One action per code path of one loop iteration:                         *)
(*                                                                         *)
(*   HorizonStop        the loop condition t < horizon fails               *)
(*   ZeroRatesStop      all rates are zero: stop, nothing recorded         *)
(*   TLZeroFallback     (tau-leap mode) the tau-leap attempt sees all rates *)
(*                      zero; the iteration falls back and then stops      *)
(*   FRAccept(e, dt)    first reaction chose e (rate > 0) and x + V[:,e]   *)
(*                      respects the limits: state and time advance        *)
(*   FRRejectStop(e)    the chosen single reaction would leave the limits: *)
(*                      nothing changes and the simulation STOPS (this is  *)
(*                      what the code does; it does not redraw)            *)
(*   TLAccept(c, tau)   tau-leap counts c, x + V.c respects the limits     *)
(*   TLRejectFallback(c) x + V.c would leave the limits: nothing changes,  *)
(*                      the same iteration retries with the first-reaction *)
(*                      method (pc = "fallback")                           *)
(*                                                                         *)
(* The settings of one run (exact or tau-leap, start, horizon) are held in *)
(* the record run so that one TLC process can validate many runs of one   *)
(* model; the exhaustive instances initialise it from constants.          *)
(* Time is an integer (ticks in the exhaustive instances, dense ranks in   *)
(* trace validation).  path is a history variable: the recorded steps.     *)
(***************************************************************************)
EXTENDS Integers, Sequences, FiniteSets, FiniteSetsExt, TLC

CONSTANTS NSt, NEv,          \* number of states and events
          V,                 \* V[i][e]: integer state-change matrix (from the model definition)
          Lo, Hi, NoLim,     \* per-state limits; NoLim marks an absent bound
          RatePos(_, _),     \* RatePos(e, y): event e has positive rate in state y
          Exact,             \* TRUE: first-reaction method only; FALSE: tau-leap with fallback
          X0, T0, Horizon,
          MaxCount, MaxDt    \* bounds of the nondeterministic draws (exhaustive instances only)

VARIABLES x, t, pc, why, path,
          run      \* settings of this run, never changed: [exact, x0, t0, horizon]
vars == <<x, t, pc, why, path, run>>

Events == 1..NEv
States == 1..NSt

InLim(y) == \A i \in States : /\ (Lo[i] = NoLim \/ y[i] >= Lo[i])
                              /\ (Hi[i] = NoLim \/ y[i] <= Hi[i])
Dot(i, c)   == FoldSet(LAMBDA e, acc : acc + V[i][e] * c[e], 0, Events)
Apply(y, c) == [i \in States |-> y[i] + Dot(i, c)]
Unit(e)     == [k \in Events |-> IF k = e THEN 1 ELSE 0]
AnyRate(y)  == \E e \in Events : RatePos(e, y)
Total(y)    == FoldSet(LAMBDA i, acc : acc + y[i], 0, States)
LegalCounts(c, y) == \A e \in Events : c[e] >= 0 /\ (c[e] > 0 => RatePos(e, y))

InitRun(r) == /\ run = r /\ x = r.x0 /\ t = r.t0 /\ pc = "run" /\ why = "" /\ path = <<>>
Init == InitRun([exact |-> Exact, x0 |-> X0, t0 |-> T0, horizon |-> Horizon])

Record(kind, c, y, s) == path' = Append(path, [kind |-> kind, c |-> c, x |-> y, t |-> s]) /\ UNCHANGED run

HorizonStop ==
    /\ pc = "run" /\ t >= run.horizon
    /\ pc' = "done" /\ why' = "horizon"
    /\ UNCHANGED <<x, t, path, run>>

(* tau-leap mode: the tau-leap attempt finds all rates zero and reports failure; the same     *)
(* iteration then retries with the first-reaction method, which stops the run (next action). *)
TLZeroFallback ==
    /\ pc = "run" /\ ~run.exact /\ t < run.horizon /\ ~AnyRate(x)
    /\ pc' = "fallback" /\ why' = ""
    /\ UNCHANGED <<x, t, path, run>>

ZeroRatesStop ==
    /\ (pc = "fallback" \/ (pc = "run" /\ run.exact)) /\ t < run.horizon /\ ~AnyRate(x)
    /\ pc' = "done" /\ why' = "zero rates"
    /\ UNCHANGED <<x, t, path, run>>

FRAccept(e, dt) ==
    /\ (pc = "fallback" \/ (pc = "run" /\ run.exact)) /\ t < run.horizon
    /\ RatePos(e, x) /\ dt >= 1
    /\ InLim(Apply(x, Unit(e)))
    /\ x' = Apply(x, Unit(e)) /\ t' = t + dt /\ pc' = "run" /\ why' = ""
    /\ Record("FR", Unit(e), x', t')

FRRejectStop(e) ==
    /\ (pc = "fallback" \/ (pc = "run" /\ run.exact)) /\ t < run.horizon
    /\ RatePos(e, x)
    /\ ~InLim(Apply(x, Unit(e)))
    /\ pc' = "done" /\ why' = "illegal single reaction"
    /\ UNCHANGED <<x, t, path, run>>

TLAccept(c, tau) ==
    /\ pc = "run" /\ ~run.exact /\ t < run.horizon /\ AnyRate(x)
    /\ LegalCounts(c, x) /\ tau >= 1
    /\ InLim(Apply(x, c))
    /\ x' = Apply(x, c) /\ t' = t + tau /\ pc' = "run" /\ why' = ""
    /\ Record("TL", c, x', t')

TLRejectFallback(c) ==
    /\ pc = "run" /\ ~run.exact /\ t < run.horizon /\ AnyRate(x)
    /\ LegalCounts(c, x)
    /\ ~InLim(Apply(x, c))
    /\ pc' = "fallback" /\ why' = ""
    /\ UNCHANGED <<x, t, path, run>>

CountVecs == [Events -> 0..MaxCount]

Next == \/ HorizonStop \/ ZeroRatesStop \/ TLZeroFallback
        \/ \E e \in Events : \E dt \in 1..MaxDt : FRAccept(e, dt)
        \/ \E e \in Events : FRRejectStop(e)
        \/ \E c \in CountVecs : \E tau \in 1..MaxDt : TLAccept(c, tau)
        \/ \E c \in CountVecs : TLRejectFallback(c)

Spec     == Init /\ [][Next]_vars
FairSpec == Spec /\ WF_vars(Next)

---------------------------------------------------------------------------
(* Properties *)

TypeOK == pc \in {"run", "fallback", "done"}

(* C11 *)
InLimits == InLim(x) /\ \A k \in 1..Len(path) : InLim(path[k].x)
RejectedStepChangesNothing ==
    [][(pc' = "fallback" \/ (pc' = "done" /\ why' = "illegal single reaction")) => (x' = x /\ t' = t)]_vars

(* C04 *)
PrevX(k) == IF k = 1 THEN run.x0 ELSE path[k - 1].x
PrevT(k) == IF k = 1 THEN run.t0 ELSE path[k - 1].t
WalkLaw ==
    \A k \in 1..Len(path) :
        /\ path[k].x = Apply(PrevX(k), path[k].c)
        /\ \A e \in Events : path[k].c[e] >= 0
        /\ (path[k].kind = "FR" => \E e \in Events : path[k].c = Unit(e))
        /\ LegalCounts(path[k].c, PrevX(k))
TimeStrict == \A k \in 1..Len(path) : path[k].t > PrevT(k)
ExactIsOneEventPerStep == run.exact => \A k \in 1..Len(path) : path[k].kind = "FR"
StopSound ==
    pc = "done" => \/ (why = "horizon" /\ t >= run.horizon)
                   \/ (why = "zero rates" /\ ~AnyRate(x))
                   \/ (why = "illegal single reaction" /\ \E e \in Events : RatePos(e, x) /\ ~InLim(Apply(x, Unit(e))))
Terminates == <>(pc = "done")

(* C10, stochastic clause: if every column of V sums to zero the total never changes *)
ColumnsZero == \A e \in Events : FoldSet(LAMBDA i, acc : acc + V[i][e], 0, States) = 0
Conservation == ColumnsZero => (Total(x) = Total(run.x0) /\ \A k \in 1..Len(path) : Total(path[k].x) = Total(run.x0))

---------------------------------------------------------------------------
(* Gridding of a finished path (C15).  g, g1, g2 are times of the same scale as t. *)

LastAtOrBefore(p, g) ==
    LET idx == {k \in 1..Len(p) : p[k].t <= g}
    IN  IF idx = {} THEN 0 ELSE Max(idx)
RowAt(p, g) == IF LastAtOrBefore(p, g) = 0 THEN run.x0 ELSE p[LastAtOrBefore(p, g)].x
CountsIn(p, g1, g2) ==
    [e \in Events |-> FoldSet(LAMBDA k, acc : acc + p[k].c[e], 0, {k \in 1..Len(p) : p[k].t > g1 /\ p[k].t <= g2})]
GridIdentity(p, g1, g2) ==
    g1 <= g2 => RowAt(p, g2) = Apply(RowAt(p, g1), CountsIn(p, g1, g2))
(* checked on every explored path for every pair of grid times in T0..Horizon *)
GridLaw == \A g1, g2 \in run.t0..run.horizon : GridIdentity(path, g1, g2)

=============================================================================
