SPECIFICATION Spec
CONSTANTS
  Evals <- MCEvals
  Master = "ode"
  Mutators <- MCMutators
  Trips <- NoOdeTrip
  MaxVer = 4
INVARIANT Fresh
INVARIANT IndInv
INVARIANT TypeOK
