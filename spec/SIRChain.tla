------------------------------ MODULE SIRChain ------------------------------
(* The embedded jump chain of the closed SIR model (and of a linear progression *)
(* chain), explored exhaustively so that TLC prints every edge of the graph.    *)
(* The harness attaches the specification's rates to the edges and computes the *)
(* exact final-size law of C05 with rational arithmetic.                        *)
EXTENDS Integers, TLC
CONSTANTS S0, I0
VARIABLES S, I
vars == <<S, I>>
Init    == S = S0 /\ I = I0
Infect  == S > 0 /\ I > 0 /\ S' = S - 1 /\ I' = I + 1
Recover == I > 0 /\ S' = S /\ I' = I - 1
Next    == Infect \/ Recover
Spec    == Init /\ [][Next]_vars
Edge    == PrintT(<<"EDGE", S, I, S', I', IF S' < S THEN 1 ELSE 2>>)
Absorbing == I = 0
(* the chain is absorbed at I = 0 and nowhere else *)
DeadIffAbsorbed == (~ENABLED Next) <=> Absorbing
TypeOK == S \in 0..S0 /\ I \in 0..(S0 + I0)
=============================================================================
