SPECIFICATION SSpec
CONSTANTS
  Seeds = {1, 2}
  Configs = {"A", "B", "N"}
  Source <- OneLocal
  Draws <- DrawsAB
  MaxLen = 5
  DumpOn = FALSE

INVARIANT SeedSensitive
CHECK_DEADLOCK FALSE
