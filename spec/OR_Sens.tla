------------------------------- MODULE OR_Sens -------------------------------
(***************************************************************************)
(* Oracle mode for SensLayout: read model definitions (JSON, the format of *)
(* OR_ModelDef plus a boolean field ff), evaluate the specification's      *)
(* augmented systems and their Jacobians and write the normal forms over   *)
(* the extended symbol table (definition symbols, then s, z, h).           *)
(*   env OR_IN / OR_OUT as in OR_ModelDef                                  *)
(***************************************************************************)
EXTENDS DefJson, SensLayout, Json, IOUtils

In == JsonDeserialize(IOEnv.OR_IN)
Wants(j, s) == \E k \in 1..Len(j.want) : j.want[k] = s
Opt(j, s, v) == IF Wants(j, s) THEN v ELSE <<>>

ToDefS(j) == [x \in (DOMAIN ToDef(j)) \cup {"ff"} |-> IF x = "ff" THEN j.ff ELSE ToDef(j)[x]]

Out(j) ==
    LET D == ToDefS(j) IN
    [id     |-> j.id,
     n2     |-> N2(D),
     ode    |-> VToTerms(Ode(D)),
     varsP  |-> VarsP(D), varsS |-> VarsS(D), varsIV |-> VarsIV(D), varsFF |-> VarsP(D) \o FfVars(D),
     augP   |-> Opt(j, "augP",  VToTerms(AugP(D))),
     augS   |-> Opt(j, "augS",  VToTerms(AugS(D))),
     augIV  |-> Opt(j, "augIV", VToTerms(AugIV(D))),
     augFF  |-> Opt(j, "augFF", VToTerms(AugFF(D))),
     jacP   |-> Opt(j, "jacP",  MToTerms(JacAugP(D))),
     jacS   |-> Opt(j, "jacS",  MToTerms(JacAugS(D))),
     jacIV  |-> Opt(j, "jacIV", MToTerms(JacAugIV(D))),
     blocks |-> Opt(j, "blocks", BlocksAreDerivatives(D)),
     layout |-> Opt(j, "layout", LayoutLaws(D))]

ASSUME JsonSerialize(IOEnv.OR_OUT, [i \in 1..Len(In) |-> Out(In[i])])
=============================================================================
