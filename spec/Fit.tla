-------------------------------- MODULE Fit --------------------------------
(***************************************************************************)
(* fit(x, lb, ub) (C18).  The optimiser itself is not modelled: it is an   *)
(* environment that may return ANY point.  The specification states what   *)
(* the call owes its caller and enumerates the configuration matrix in     *)
(* which that is to be examined:                                           *)
(*   model x loss class x ordered selection of free parameters x where the *)
(*   start lies (interior / on the lower / on the upper bound / at the     *)
(*   data-generating values) x kind of box.                                *)
(* Bounds reach the optimiser as one <<lower, upper>> pair per variable    *)
(* (BoundsPairs); the implementation packs them with a Fortran-order       *)
(* reshape (BoundsPackedF) and TLC checks that the two agree (and that the *)
(* C-order reshape does not).  Values are abstracted to ranks per          *)
(* coordinate: only their order matters.                                   *)
(***************************************************************************)
EXTENDS SensLayout

CONSTANTS NParams,        \* NParams[m]: number of parameters of model m
          Models, Classes, MaxFree
Starts == {"interior", "lower", "upper", "generating"}
Boxes  == {"tight", "wide", "excluding"}     \* "excluding": the box does not contain the data-generating values (the optimum
                                             \* then lies on its boundary); bounds may be given as integers

InjSeqsUpTo(S, k) == {s \in UNION {[1..n -> S] : n \in 1..k} : \A i, j \in DOMAIN s : i # j => s[i] # s[j]}

VARIABLES cfg, phase, outcome
fvars == <<cfg, phase, outcome>>

Init == /\ cfg \in {c \in [model : Models, class : Classes, start : Starts, box : Boxes,
                             free : UNION {InjSeqsUpTo(1..NParams[m], MaxFree) : m \in Models}] :
                      /\ \A i \in DOMAIN c.free : c.free[i] <= NParams[c.model]
                      /\ (c.box = "excluding" => c.start # "generating")}
        /\ phase = "chosen" /\ outcome = <<>>

BoundsPairs(lb, ub)   == [i \in 1..Len(lb) |-> <<lb[i], ub[i]>>]
BoundsPackedF(lb, ub) == MatF(lb \o ub, Len(lb), 2)
BoundsPackedC(lb, ub) == MatC(lb \o ub, Len(lb), 2)
BoundsLaw == \A n \in 1..4 : LET lb == [i \in 1..n |-> i]
                                 ub == [i \in 1..n |-> 10 + i]
                             IN  /\ BoundsPackedF(lb, ub) = BoundsPairs(lb, ub)
                                 /\ (n > 1 => BoundsPackedC(lb, ub) # BoundsPairs(lb, ub))

(* what a fit owes its caller; ranks: per coordinate among {lb, ub, start, result, generating value} *)
InBox(o)      == \A i \in 1..Len(o.result) : o.lb[i] <= o.result[i] /\ o.result[i] <= o.ub[i]
NotWorse(o)   == o.costResult <= o.costStart
ReturnsGenerating(o) == (cfg.start = "generating" /\ o.noiseFree) => o.atGenerating
FitPost(o)    == InBox(o) /\ NotWorse(o) /\ ReturnsGenerating(o)

(* the environment: any outcome whatsoever *)
FitReturns(o) == /\ phase = "chosen" /\ phase' = "fitted" /\ outcome' = o /\ UNCHANGED cfg
=============================================================================
