----------------------------- MODULE PygomModel -----------------------------
(***************************************************************************)
(* The abstract level against which evaluator freshness (C08) is judged:   *)
(* a live model object is mutated (processes added through any route,      *)
(* parameters and derived parameters added, parameter values re-bound) and *)
(* evaluated; every evaluation returns the normal form that belongs to the *)
(* CURRENT definition and binding.  There is no cache at this level: that  *)
(* is the property.  (The canary mechanism that implements it is modelled  *)
(* in EvalCache.tla and shown to refine this level.)                       *)
(*                                                                         *)
(* obs records every call together with what the specification expects it  *)
(* to return; TLC-generated behaviours are replayed into real objects.     *)
(***************************************************************************)
EXTENDS ModelDef

CONSTANTS NPX, NDX,       \* parameter / derived slots in the symbol table
          NP0,            \* parameters declared at construction
          Needs,          \* Needs[k] = [p, d]: parameters / derived the k-th menu process mentions
          Base,           \* menu indices of the processes the object is constructed with
          MaxObs,
          MaxMut          \* at most this many add_* calls per behaviour (keeps evaluations frequent)

VARIABLES nparam, nder,   \* declared so far
          bound,          \* [1..NPX -> tag]: <<0,0>> = unset, <<c, j>> = value j of call c
          obs,
          mode            \* scheduling only: which kind of call comes next (gives simulation a
                          \* uniform choice between kinds instead of between the many add_* variants)

pvars == <<vars, nparam, nder, bound, obs, mode>>

EvalNames == {"ode", "jacobian", "grad", "diff_jacobian", "grad_jacobian", "vMat", "eventRateVector",
              "pureOdeVector", "transitionJacobian", "transitionMean", "transitionVar"}

CurDefL == [CurDef EXCEPT !.np = nparam, !.npx = NPX, !.nd = nder, !.derived = SubSeq(Derived, 1, nder)]

Row(v) == << v >>
EvalNF(e, D) ==
    CASE e = "ode"                -> Row(Ode(D))
      [] e = "jacobian"           -> Jac(D)
      [] e = "grad"               -> Grad(D)
      [] e = "diff_jacobian"      -> DiffJac(D)
      [] e = "grad_jacobian"      -> GradJac(D)
      [] e = "vMat"               -> VMat(D)
      [] e = "eventRateVector"    -> Row(RateVec(D))
      [] e = "pureOdeVector"      -> Row(PureOde(D))
      [] e = "transitionJacobian" -> TransJac(D)
      [] e = "transitionMean"     -> Row(TransMean(D))
      [] e = "transitionVar"      -> Row(TransVar(D))

AllBoundL == \A k \in 1..nparam : bound[k] # <<0, 0>>
Step == Len(obs) + 1

PInit ==
    /\ phase = "live"
    /\ slotE = [j \in 1..Len(Base) |-> Normal(Menu[Base[j]])]
    /\ slotT = <<>> /\ slotB = <<>> /\ tail = <<>> /\ slotO = <<>> /\ tailO = <<>>
    /\ procs = Base /\ hist = <<>>
    /\ nparam = NP0 /\ nder = 0
    /\ bound = [k \in 1..NPX |-> <<0, 0>>]
    /\ obs = <<>>
    /\ mode = "choose"

(* add_event / add_transition / add_birth_death / add_ode *)
Mutate(k, r) ==
    /\ Len(obs) < MaxObs /\ Len(procs) - Len(Base) < MaxMut
    /\ Needs[k].p <= nparam /\ Needs[k].d <= nder
    /\ r \in Routes(Menu[k])
    /\ procs' = Append(procs, k)
    /\ tail'  = IF Slot(r) # "ode" THEN Append(tail, Normal(Menu[k])) ELSE tail
    /\ tailO' = IF Slot(r) = "ode" THEN tailO \o OdeTerms(Menu[k])    ELSE tailO
    /\ obs' = Append(obs, [act |-> "Mutate", k |-> k, route |-> r, e |-> "", names |-> <<>>, expect |-> <<>>])
    /\ UNCHANGED <<phase, slotE, slotT, slotB, slotO, hist, nparam, nder, bound>>

AddParam ==
    /\ Len(obs) < MaxObs /\ nparam < NPX
    /\ nparam' = nparam + 1
    /\ obs' = Append(obs, [act |-> "AddParam", k |-> nparam + 1, route |-> "", e |-> "", names |-> <<>>, expect |-> <<>>])
    /\ UNCHANGED <<vars, nder, bound>>

AddDerived ==
    /\ Len(obs) < MaxObs /\ nder < NDX
    /\ nder' = nder + 1
    /\ obs' = Append(obs, [act |-> "AddDerived", k |-> nder + 1, route |-> "", e |-> "", names |-> <<>>, expect |-> <<>>])
    /\ UNCHANGED <<vars, nparam, bound>>

(* re-binding: the whole list, the whole dict, or one name of a partial dict *)
SetAll(form) ==
    /\ Len(obs) < MaxObs /\ form \in {"list", "dict"}
    /\ bound' = [k \in 1..NPX |-> IF k <= nparam THEN <<Step, k>> ELSE <<0, 0>>]
    /\ obs' = Append(obs, [act |-> "SetParams", k |-> 0, route |-> form, e |-> "",
                           names |-> [j \in 1..nparam |-> j], expect |-> <<>>])
    /\ UNCHANGED <<vars, nparam, nder>>
SetOne(j) ==
    /\ Len(obs) < MaxObs /\ j \in 1..nparam
    /\ \A k \in 1..nparam : k # j => bound[k] # <<0, 0>>      \* a partial update presupposes the OTHER values (j itself may be a
                                                               \* parameter that was declared after the last full assignment)
    /\ bound' = [bound EXCEPT ![j] = <<Step, j>>]
    /\ obs' = Append(obs, [act |-> "SetParams", k |-> 0, route |-> "dict", e |-> "", names |-> <<j>>, expect |-> <<>>])
    /\ UNCHANGED <<vars, nparam, nder>>

(* an evaluation returns the normal form of the current definition -- nothing else *)
Evaluate(e) ==
    /\ Len(obs) < MaxObs /\ AllBoundL
    /\ obs' = Append(obs, [act |-> "Evaluate", k |-> 0, route |-> "", e |-> e, names |-> <<>>,
                           expect |-> MToTerms(EvalNF(e, CurDefL))])
    /\ UNCHANGED <<vars, nparam, nder, bound>>

Kinds == {"mut", "eval", "eval2", "bind", "decl"}
KindEnabled(kd) ==
    CASE kd = "mut"  -> Len(procs) - Len(Base) < MaxMut
      [] kd \in {"eval", "eval2"} -> AllBoundL
      [] kd = "bind" -> TRUE
      [] kd = "decl" -> nparam < NPX \/ nder < NDX
Choose == /\ mode = "choose" /\ Len(obs) < MaxObs
          /\ \E kd \in Kinds : KindEnabled(kd) /\ mode' = kd
          /\ UNCHANGED <<vars, nparam, nder, bound, obs>>
Act ==  /\ mode # "choose" /\ mode' = "choose"
        /\ CASE mode = "mut"  -> \E k \in 1..Len(Menu) : \E r \in Routes(Menu[k]) : Mutate(k, r)
              [] mode \in {"eval", "eval2"} -> \E e \in EvalNames : Evaluate(e)
              [] mode = "bind" -> (\E f \in {"list", "dict"} : SetAll(f)) \/ (\E j \in 1..NPX : SetOne(j))
              [] mode = "decl" -> AddParam \/ AddDerived
PNext == Choose \/ Act

PSpec == PInit /\ [][PNext]_pvars

PInvWellFormed == WellFormed(CurDefL)
PInvOdeIsVR    == OdeIsVRPlusPure(CurDefL)
=============================================================================
