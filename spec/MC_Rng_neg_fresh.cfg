SPECIFICATION SSpec
CONSTANTS
  Seeds = {1, 2}
  Configs = {"A", "B", "N"}
  Source <- OneFresh
  Draws <- DrawsAB
  MaxLen = 5
  DumpOn = FALSE
INVARIANT Reproducible

CHECK_DEADLOCK FALSE
