---------------------------- MODULE MC_LossWiring ----------------------------
(* Exhaustive enumeration of every wiring (ordered selections of observed   *)
(* states, target parameters, target states, weight shapes) and of the call *)
(* histories over them; with DumpOn every state at the dump depth is printed *)
(* with its recipes for replay into real loss objects (mode G).             *)
EXTENDS LossWiring, LossKernel, Json

CONSTANTS DumpOn, DumpDepth

KernelTerms == [c \in Classes |-> [d1 |-> PToTerms(D1(c)), d2 |-> PToTerms(D2(c)),
                                   usesW |-> UsesWeights(c), spread |-> HasSpread(c)]]
ASSUME KernelLaws
ASSUME DumpOn => PrintT(ToJson([kernels |-> KernelTerms, ns |-> NS, np |-> NP, nt |-> NT, n2 |-> N2(LD),
                                varsP |-> VarsP(LD), varsIV |-> VarsIV(LD),
                                varsFF |-> VarsP(LD) \o FfVars(LD)]))

DepthOK == Len(calls) <= DumpDepth

(* Directed families, explored exhaustively over EVERY wiring: fixed scripts that touch each register     *)
(* path -- free parameters supplied, registers re-used, parameters + initial values supplied, re-used,   *)
(* initial values alone.  One script per property so that each is judged on its own calls.              *)
AllV(n, v) == [i \in 1..n |-> v]
ScriptOf(id) ==
    CASE id = "C06" -> << <<"cost", "P", 1>>, <<"disturb", "D", 0>>, <<"residual", "N", 0>>, <<"costIV", "IV", 2>>,
                          <<"disturb", "D", 0>>, <<"cost", "N", 0>>, <<"residual", "P", 1>>, <<"residualIV", "N", 0>>,
                          <<"costIV", "S", 1>>, <<"cost", "N", 0>> >>
      [] id = "C07" -> << <<"disturb", "D", 0>>, <<"sensitivity", "N", 0>>, <<"sensitivity", "P", 1>>, <<"disturb", "D", 0>>,
                          <<"jac", "N", 0>>, <<"sensitivityIV", "IV", 2>>, <<"disturb", "D", 0>>, <<"jacIV", "N", 0>>,
                          <<"gradient", "N", 0>>, <<"jac", "P", 1>>, <<"sensitivityIV", "S", 1>>, <<"sensitivity", "N", 0>> >>
      [] id = "C20" -> << <<"jtj", "P", 1>>, <<"disturb", "D", 0>>, <<"hessian", "N", 0>>, <<"costIV", "IV", 2>>,
                          <<"disturb", "D", 0>>, <<"jtj", "N", 0>>, <<"hessian", "P", 1>> >>
CONSTANT ScriptId
Script == ScriptOf(ScriptId)
SNext ==
    LET q == Len(calls) + 1 IN
    /\ q <= Len(Script)
    /\ LET e == Script[q] IN
       CASE e[2] = "P"  -> CallP(e[1], AllV(Len(FreeP), e[3]))
         [] e[2] = "N"  -> CallNone(e[1])
         [] e[2] = "D"  -> Disturb
         [] e[2] = "IV" -> CallIV(e[1], AllV(Len(FreeP) + Len(FreeS), e[3]))
         [] e[2] = "S"  -> IF ~tp.some /\ ts.some THEN CallIVStatesOnly(e[1], AllV(Len(FreeS), e[3]))
                           ELSE CallNone(e[1])
SSpec == Init /\ [][SNext]_lvars


Dump ==
    (DumpOn /\ Len(calls) = (IF DumpDepth = 99 THEN Len(Script) ELSE DumpDepth)) =>
        PrintT(ToJson([obs |-> obs, tp |-> tp, ts |-> ts, wk |-> wk,
                       cells |-> CostCells,
                       wtab |-> [k \in WKinds |-> WeightTable(k)],
                       grad |-> GradRecipe, gradIV |-> GradRecipeIV, hess |-> HessRecipe,
                       jaccols |-> [q \in 1..(Len(FreeP) * NObs) |-> GradSym(((q - 1) \div NObs) + 1, ((q - 1) % NObs) + 1)],
                       coincidence |-> LengthCoincidence,
                       calls |-> calls]))


(* bounds packing of fit, all vectors of length <= 4 over distinct tokens *)
BoundsOK ==
    \A n \in 1..4 : LET lb == [i \in 1..n |-> i]
                        ub == [i \in 1..n |-> 10 + i]
                    IN  /\ BoundsPackedF(lb, ub) = BoundsPairs(lb, ub)
                        /\ (n > 1 => BoundsPackedC(lb, ub) # BoundsPairs(lb, ub))
ASSUME BoundsOK
=============================================================================
