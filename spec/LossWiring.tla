------------------------------ MODULE LossWiring ------------------------------
(***************************************************************************)
(* Layer L7: how a loss object wires data, model trajectory and            *)
(* sensitivities together (C06, C07, C18, C20).                            *)
(*                                                                         *)
(* A WIRING is what the user chose when constructing the loss object:      *)
(*   obs    the observed states, an injective sequence over 1..NS in the   *)
(*          order of the columns of y (any order, any subset)              *)
(*   tp     the target parameters  [some, seq]  (some = FALSE: all of them *)
(*          in model order)                                                *)
(*   ts     the target states, likewise (only used by the *IV calls)       *)
(*   wk     the shape in which weights / spread were supplied              *)
(* The object has two registers, theta and x0.  Values are abstract ids:   *)
(* 0 is the value given to the constructor, 1..NV are values supplied by   *)
(* later calls.  Every call is an action that first updates the registers  *)
(* from its argument -- in the order the free variables were SUPPLIED --    *)
(* and then evaluates; what it must return is a function of the registers  *)
(* and of the recipes below (which cell of y meets which state at which    *)
(* time, which sensitivity symbol of SensLayout carries which free         *)
(* variable).  The numbers themselves are computed outside TLC from a      *)
(* reference solution (DESIGN 4.3); the recipes are the specification.     *)
(***************************************************************************)
EXTENDS SensLayout

CONSTANTS NS, NP,        \* sizes of the model
          NT,            \* number of observation times
          NV,            \* number of distinct later values per free variable
          MaxCalls,
          POps, IOps     \* the calls explored (subsets of ParamOps / IVOps: register behaviour does not depend on the op)

VARIABLES obs, tp, ts, wk,     \* the wiring (chosen in Init, never changed)
          theta, x0,           \* registers: value id per parameter / per state
          calls                \* the calls so far: [op, arg, theta, x0] (registers AFTER the update)

wiring == <<obs, tp, ts, wk>>
lvars  == <<obs, tp, ts, wk, theta, x0, calls>>

InjSeqs(S) == {s \in UNION {[1..k -> S] : k \in 1..Cardinality(S)} : \A i, j \in DOMAIN s : i # j => s[i] # s[j]}
Sel(S)     == {[some |-> FALSE, seq |-> <<>>]} \cup {[some |-> TRUE, seq |-> s] : s \in InjSeqs(S)}
WKinds     == {"none", "scalar", "perstate", "perobs", "table"}

Ident(n)   == [k \in 1..n |-> k]
FreeP      == IF tp.some THEN tp.seq ELSE Ident(NP)
FreeS      == IF ts.some THEN ts.seq ELSE Ident(NS)
NObs       == Len(obs)

---------------------------------------------------------------------------
(* Recipes *)

(* C06: observation row i meets time i; column j meets the j-th NAMED state *)
CostCell(i, j) == [yrow |-> i, ycol |-> j, time |-> i, state |-> obs[j]]
CostCells == [i \in 1..NT |-> [j \in 1..NObs |-> CostCell(i, j)]]

(* where the weight (or spread) of cell (i, j) comes from in what the user supplied:        *)
(* <<row, column>> of the supplied array, 0 = that axis does not exist                       *)
WeightSrc(kind, i, j) ==
    CASE kind = "none"     -> <<0, 0>>         \* weight 1
      [] kind = "scalar"   -> <<1, 1>>
      [] kind = "perstate" -> <<0, j>>         \* one value per observed state
      [] kind = "perobs"   -> <<i, 0>>         \* one value per observation (single observed state)
      [] kind = "table"    -> <<i, j>>
WeightTable(kind) == [i \in 1..NT |-> [j \in 1..NObs |-> WeightSrc(kind, i, j)]]
WKindAllowed(kind) == (kind = "perobs") => NObs = 1

(* C07: the sensitivity symbol (SensLayout) that carries d x_{obs[j]} / d (k-th free parameter) *)
LD == [ns |-> NS, np |-> NP, n |-> NS + 1 + NP, ff |-> TRUE]
GradSym(k, j)   == SIdx(LD, obs[j], FreeP[k])
GradSymIV(l, j) == ZIdx(LD, obs[j], FreeS[l])
HessSym(k, l, j) == HIdx(LD, obs[j], FreeP[k], FreeP[l])
GradRecipe   == [k \in 1..Len(FreeP) |-> [j \in 1..NObs |-> GradSym(k, j)]]
GradRecipeIV == [l \in 1..Len(FreeS) |-> [j \in 1..NObs |-> GradSymIV(l, j)]]
HessRecipe   == [k \in 1..Len(FreeP) |-> [l \in 1..Len(FreeP) |-> [j \in 1..NObs |-> HessSym(k, l, j)]]]

(* position (1-based) of a symbol in an augmented vector *)
PosIn(vars, sym) == CHOOSE q \in 1..Len(vars) : vars[q] = sym

(* ... and as the implementation selects the columns: for the k-th target parameter and the   *)
(* j-th observed state the column  state + (param+1)*nS  (0-based) of the by-parameter system, *)
(* listed parameter by parameter with the observed states innermost, because sens_to_grad      *)
(* reshapes the selected columns to (n, observed states, free parameters) in Fortran order.    *)
CodeColP(k, j)  == obs[j] + FreeP[k] * NS                    \* 1-based position in the augmented vector
CodeColIV(l, j) == obs[j] + (FreeS[l] + NP) * NS
CodeColumnsP == [q \in 1..(Len(FreeP) * NObs) |-> CodeColP(((q - 1) \div NObs) + 1, ((q - 1) % NObs) + 1)]
(* the pinned tree sorted that list (negative control, DESIGN 7-D6) *)
SortedColumnsP == SortSeq(CodeColumnsP, <)

ColumnsCarryRecipe(cols) ==
    \A k \in 1..Len(FreeP) : \A j \in 1..NObs :
        VarsP(LD)[cols[(k - 1) * NObs + j]] = GradSym(k, j)
InvColumnsP  == ColumnsCarryRecipe(CodeColumnsP)
InvColumnsIV == \A l \in 1..Len(FreeS) : \A j \in 1..NObs : VarsIV(LD)[CodeColIV(l, j)] = GradSymIV(l, j)
NegSortedColumns == ColumnsCarryRecipe(SortedColumnsP)        \* must FAIL for some wiring

(* cost / residual / costIV / residualIV take an option that switches the observation weights off: the formula is then the
   class's formula with every weight replaced by 1 (the registers behave as for any other call, so the option is not a
   dimension of the state space; the replayer draws it per call and uses this definition for the expected value) *)
EffectiveWeight(w, applyWeighting) == IF applyWeighting THEN w ELSE 1

(* the recipes are injective: no two (free variable, observed state) pairs share a symbol *)
InvRecipeInjective ==
    /\ \A k1, k2 \in 1..Len(FreeP) : \A j1, j2 \in 1..NObs :
          GradSym(k1, j1) = GradSym(k2, j2) => (k1 = k2 /\ j1 = j2)
    /\ \A l1, l2 \in 1..Len(FreeS) : \A j1, j2 \in 1..NObs :
          GradSymIV(l1, j1) = GradSymIV(l2, j2) => (l1 = l2 /\ j1 = j2)
    /\ \A k \in 1..Len(FreeP) : \A l \in 1..Len(FreeS) : \A j1, j2 \in 1..NObs : GradSym(k, j1) # GradSymIV(l, j2)

---------------------------------------------------------------------------
(* Registers *)

Init ==
    /\ obs \in InjSeqs(1..NS)
    /\ tp \in Sel(1..NP) /\ ts \in Sel(1..NS)
    /\ wk \in {k \in WKinds : (k = "perobs") => Len(obs) = 1}
    /\ theta = [k \in 1..NP |-> 0] /\ x0 = [s \in 1..NS |-> 0]
    /\ calls = <<>>

ParamOps == {"cost", "residual", "sensitivity", "gradient", "jac", "jtj", "hessian"}
IVOps    == {"costIV", "residualIV", "sensitivityIV", "jacIV"}

Values(n) == [1..n -> 1..NV]
Record(op, arg, th, x) == calls' = Append(calls, [op |-> op, arg |-> arg, theta |-> th, x0 |-> x])

(* op(theta = None): the registers are used as they are *)
CallNone(op) ==
    /\ Len(calls) < MaxCalls
    /\ Record(op, <<>>, theta, x0)
    /\ UNCHANGED <<wiring, theta, x0>>

(* op(v): v gives the free parameters in the order they were supplied *)
CallP(op, v) ==
    /\ Len(calls) < MaxCalls /\ op \in ParamOps
    /\ v \in Values(Len(FreeP))
    /\ LET th == [k \in 1..NP |-> IF \E i \in 1..Len(FreeP) : FreeP[i] = k
                                  THEN v[CHOOSE i \in 1..Len(FreeP) : FreeP[i] = k] ELSE theta[k]]
       IN  theta' = th /\ Record(op, v, th, x0)
    /\ UNCHANGED <<wiring, x0>>

(* opIV(v): free parameters (supplied order) followed by free initial values (supplied order) *)
CallIV(op, v) ==
    /\ Len(calls) < MaxCalls /\ op \in IVOps
    /\ v \in Values(Len(FreeP) + Len(FreeS))
    /\ LET th == [k \in 1..NP |-> IF \E i \in 1..Len(FreeP) : FreeP[i] = k
                                  THEN v[CHOOSE i \in 1..Len(FreeP) : FreeP[i] = k] ELSE theta[k]]
           xx == [s \in 1..NS |-> IF \E i \in 1..Len(FreeS) : FreeS[i] = s
                                  THEN v[Len(FreeP) + (CHOOSE i \in 1..Len(FreeS) : FreeS[i] = s)] ELSE x0[s]]
       IN  theta' = th /\ x0' = xx /\ Record(op, v, th, xx)
    /\ UNCHANGED wiring

(* the "initial values only" form accepted when no target parameter was named *)
CallIVStatesOnly(op, v) ==
    /\ Len(calls) < MaxCalls /\ op \in IVOps
    /\ ~tp.some /\ ts.some
    /\ v \in Values(Len(FreeS))
    /\ LET xx == [s \in 1..NS |-> IF \E i \in 1..Len(FreeS) : FreeS[i] = s
                                  THEN v[CHOOSE i \in 1..Len(FreeS) : FreeS[i] = s] ELSE x0[s]]
       IN  x0' = xx /\ Record(op, v, theta, xx)
    /\ UNCHANGED <<wiring, theta>>

(* Someone else -- a second loss object built on the same model, or the user -- re-binds the shared model's    *)
(* parameters and initial values between two calls.  The loss object's registers are its own: nothing changes, *)
(* and every later result is what it would have been without the disturbance.                                  *)
Disturb ==
    /\ Len(calls) < MaxCalls
    /\ Record("disturb", <<>>, theta, x0)
    /\ UNCHANGED <<wiring, theta, x0>>

Next == \/ \E op \in POps \cup IOps : CallNone(op)
        \/ Disturb
        \/ \E op \in POps : \E v \in Values(Len(FreeP)) : CallP(op, v)
        \/ \E op \in IOps : \E v \in Values(Len(FreeP) + Len(FreeS)) : CallIV(op, v)
        \/ \E op \in IOps : \E v \in Values(Len(FreeS)) : CallIVStatesOnly(op, v)
Spec == Init /\ [][Next]_lvars

(* the 7-way length dispatch of the implementation cannot tell theta (+) x0 from "parameters only" when  *)
(* no target state is named and the two lengths coincide (DESIGN 7-D16, known finding)                    *)
LengthCoincidence == tp.some /\ ~ts.some /\ Len(tp.seq) + NS = NP

(* register laws *)
InvNonTargetsKeepConstructorValue ==
    /\ \A k \in 1..NP : (~\E i \in 1..Len(FreeP) : FreeP[i] = k) => theta[k] = 0
InvRegistersAreLastSupplied ==
    Len(calls) > 0 => (calls[Len(calls)].theta = theta /\ calls[Len(calls)].x0 = x0)
WiringNeverChanges == [][UNCHANGED wiring]_lvars

---------------------------------------------------------------------------
(* fit: box constraints are handed to the optimiser as one (lower, upper) pair per variable *)
BoundsPairs(lb, ub)  == [i \in 1..Len(lb) |-> <<lb[i], ub[i]>>]
(* as the implementation packs them: reshape(append(lb, ub), (n, 2), order = 'F') *)
BoundsPackedF(lb, ub) == MatF(lb \o ub, Len(lb), 2)
BoundsPackedC(lb, ub) == MatC(lb \o ub, Len(lb), 2)       \* negative control
FitPost(start, lb, ub, result, costStart, costResult) ==
    /\ \A i \in 1..Len(result) : lb[i] <= result[i] /\ result[i] <= ub[i]
    /\ costResult <= costStart
=============================================================================
