SPECIFICATION Spec
CONSTANTS
  Objs = {"A", "B", "C"}
  Procs = {1, 2}
  RebindOnCopy = TRUE
  MaxSteps = 7
INVARIANT OwnDefinition
CHECK_DEADLOCK FALSE
