------------------------------ MODULE ParamBind ------------------------------
(***************************************************************************)
(* Layer L2: binding of parameter values (property C09).                   *)
(*                                                                         *)
(* Values are abstract tags <<call, j>> = "the j-th value written in call   *)
(* number `call`"; the harness maps tags to pairwise distinct numbers.     *)
(* Every accepted input form of `model.parameters = ...` is one action,    *)
(* written the way the form is consumed (positionally, pair by pair, key   *)
(* by key); every rejected input is an action that changes nothing.        *)
(* given is a ghost: the last value supplied *for that name*.              *)
(*                                                                         *)
(* A dict may also bind a name to a DISTRIBUTION (a frozen scipy           *)
(* distribution or a (sampler, args) tuple).  Such a name is re-drawn by   *)
(* every integration / simulation (action Integrate) until an assignment   *)
(* gives it a number again.  Its value tag is <<-c, k>>: "a draw of the    *)
(* distribution written for name k in call c" -- the harness uses          *)
(* distributions with narrow, pairwise disjoint supports, so an            *)
(* evaluation shows which distribution (or number) a name is bound to.     *)
(* These actions are part of the menu only when WithRandom is set.         *)
(***************************************************************************)
EXTENDS Integers, Sequences, FiniteSets, SequencesExt, TLC

CONSTANTS NPar, MaxCalls,
          WithScalar,     \* include the bare-number form of one-parameter models
          WithRandom      \* include bindings to distributions and the re-drawing integrations; the menu of the other
                          \* forms is then reduced to one representative each (the full menu is explored without it)
VARIABLES pval, given, ncall, hist,
          rnd             \* rnd[k]: name k is bound to a distribution
vars == <<pval, given, ncall, hist, rnd>>

Unset  == <<0, 0>>
Names  == 1..NPar
Zz     == 0                     \* a name the model does not have
Perms  == {p \in [Names -> Names] : \A a, b \in Names : a # b => p[a] # p[b]}
Subsets == SUBSET Names \ {{}}
AllBound == \A k \in Names : pval[k] # Unset

Init == /\ pval = [k \in Names |-> Unset]
        /\ given = [k \in Names |-> Unset]
        /\ ncall = 0
        /\ hist = <<>>
        /\ rnd = [k \in Names |-> FALSE]

LogR(act, form, names, after, ok, rand) ==
    /\ ncall < MaxCalls
    /\ ncall' = ncall + 1
    /\ hist' = Append(hist, [act |-> act, form |-> form, names |-> names, after |-> after, ok |-> ok, rand |-> rand])
Log(act, form, names, after, ok) == LogR(act, form, names, after, ok, <<>>)
NoneRandom == [k \in Names |-> FALSE]

(* ordered list / tuple / 1-d array / column array: the j-th value is for the j-th declared parameter *)
Positional(form) ==
    LET c == ncall + 1
        new == [k \in Names |-> <<c, k>>]
    IN  /\ form \in {"list", "tuple", "array", "colarray"}
        /\ pval' = new
        /\ given' = [k \in Names |-> <<c, k>>]
        /\ rnd' = NoneRandom                      \* a number for every name: nothing is re-drawn any more
        /\ Log("Positional", form, [j \in Names |-> j], new, TRUE)

(* list / tuple of (name, value) pairs in any order: consumed pair by pair *)
RECURSIVE ApplyPairs(_, _, _, _)
ApplyPairs(f, perm, c, j) ==
    IF j > NPar THEN f ELSE ApplyPairs([f EXCEPT ![perm[j]] = <<c, j>>], perm, c, j + 1)
Pairs(form, perm) ==
    LET c == ncall + 1
        new == ApplyPairs(pval, perm, c, 1)
    IN  /\ form \in {"pairs-list", "pairs-tuple"}
        /\ pval' = new
        /\ given' = [k \in Names |-> <<c, CHOOSE j \in Names : perm[j] = k>>]
        /\ rnd' = NoneRandom
        /\ Log("Pairs", form, [j \in Names |-> perm[j]], new, TRUE)

(* dict keyed by name (str) or by symbol; a partial dict keeps the other values.  A binding may also be built up from   *)
(* partial dicts alone: names not mentioned yet stay Unset (nothing is evaluated before every name has a value).       *)
Dict(form, sub) ==
    LET c == ncall + 1
        new == [k \in Names |-> IF k \in sub THEN <<c, k>> ELSE pval[k]]
    IN  /\ form \in {"dict-str", "dict-sym"}
        /\ pval' = new
        /\ given' = [k \in Names |-> IF k \in sub THEN <<c, k>> ELSE given[k]]
        /\ rnd' = [k \in Names |-> IF k \in sub THEN FALSE ELSE rnd[k]]     \* the names it mentions get numbers
        /\ Log("Dict", form, SetToSeq(sub), new, TRUE)

(* a dict in which the names of rsub (at least one) are given a distribution and the other names of sub a number.   *)
(* The value in force for a random name is a draw of ITS distribution.  A partial dict of this kind is only taken     *)
(* when no name outside it is random (what should happen to those is not something C09 states).                     *)
DictRandom(form, sub, rsub) ==
    LET c == ncall + 1
        new == [k \in Names |-> IF k \in rsub THEN <<-c, k>> ELSE IF k \in sub THEN <<c, k>> ELSE pval[k]]
    IN  /\ WithRandom
        /\ form = "dict-str"
        /\ rsub # {} /\ rsub \subseteq sub
        /\ (sub = Names \/ (AllBound /\ \A k \in Names \ sub : ~rnd[k]))
        /\ pval' = new
        /\ given' = [k \in Names |-> IF k \in sub THEN new[k] ELSE given[k]]
        /\ rnd' = [k \in Names |-> IF k \in sub THEN k \in rsub ELSE rnd[k]]
        /\ LogR("DictRandom", form, SetToSeq(sub), new, TRUE, SetToSeq(rsub))

(* an integration / simulation: every random name is drawn again FROM ITS OWN distribution, every other name keeps   *)
(* its number -- the abstract binding does not change *)
Integrate(how) ==
    /\ WithRandom /\ AllBound
    /\ how \in {"integrate", "integrate2", "jump"}
    /\ UNCHANGED <<pval, given, rnd>>
    /\ Log("Integrate", how, <<>>, pval, TRUE)

(* one-parameter models accept a bare number *)
Scalar ==
    /\ WithScalar /\ NPar = 1
    /\ pval' = [k \in Names |-> <<ncall + 1, 1>>]
    /\ given' = pval'
    /\ rnd' = NoneRandom
    /\ Log("Scalar", "scalar", <<1>>, pval', TRUE)

(* ---- rejected inputs: an error is raised and nothing is bound, now or later ---- *)
Reject(act, form, names) ==
    /\ UNCHANGED <<pval, given, rnd>>
    /\ Log(act, form, names, pval, FALSE)

RejectWrongLength(form, len) ==
    /\ form \in {"list", "tuple", "array", "rowarray", "pairs-list", "table"}
    /\ len \in {NPar - 1, NPar + 1} /\ len >= 1
    /\ (form = "table" => len = NPar + 1)      \* "table": an array with one ROW per parameter but several columns
    /\ Reject("RejectWrongLength", form, [j \in 1..len |-> IF j <= NPar THEN j ELSE Zz])
RejectUnknownPairs(perm, j) ==          \* the j-th pair names a parameter the model does not have
    /\ j \in Names
    /\ Reject("RejectUnknownPairs", "pairs-list", [i \in Names |-> IF i = j THEN Zz ELSE perm[i]])
RejectUnknownDict(form, sub) ==         \* valid keys first, then an unknown one
    /\ form \in {"dict-str", "dict-sym"}
    /\ Cardinality(sub) < NPar
    /\ Reject("RejectUnknownDict", form, SetToSeq(sub) \o <<Zz>>)
RejectTooMany ==
    Reject("RejectTooMany", "dict-str", [j \in 1..(NPar + 1) |-> IF j <= NPar THEN j ELSE Zz])
RejectBadType(form) ==
    /\ form \in {"string", "list-of-strings", "set"}
    /\ Reject("RejectBadType", form, <<>>)

(* every disjunct carries its own guard so that TLC keeps them as separate actions (simulation then draws one action, one
   successor) *)
FullMenu ==
    \/ \E f \in {"list", "tuple", "array", "colarray"} : ~WithRandom /\ Positional(f)
    \/ \E f \in {"pairs-list", "pairs-tuple"} : \E p \in Perms : ~WithRandom /\ Pairs(f, p)
    \/ \E f \in {"dict-str", "dict-sym"} : \E s \in Subsets : ~WithRandom /\ Dict(f, s)
    \/ ~WithRandom /\ Scalar
    \/ \E f \in {"list", "tuple", "array", "rowarray", "pairs-list", "table"} : \E l \in {NPar - 1, NPar + 1} :
          ~WithRandom /\ RejectWrongLength(f, l)
    \/ \E p \in Perms : \E j \in Names : (~WithRandom /\ p = [k \in Names |-> k] /\ RejectUnknownPairs(p, j))
    \/ \E f \in {"dict-str", "dict-sym"} : \E s \in SUBSET Names : ~WithRandom /\ RejectUnknownDict(f, s)
    \/ ~WithRandom /\ RejectTooMany
    \/ \E f \in {"string", "list-of-strings", "set"} : ~WithRandom /\ RejectBadType(f)

(* with distributions: one representative of every deterministic form, every random dict whose random part is one name *)
(* or all of its names, the three re-drawing calls, two rejections *)
RandomMenu ==
    \/ WithRandom /\ Positional(IF ncall % 2 = 0 THEN "list" ELSE "array")
    \/ \E p \in Perms : WithRandom /\ Pairs("pairs-list", p)
    \/ \E s \in Subsets : WithRandom /\ Dict(IF ncall % 2 = 0 THEN "dict-str" ELSE "dict-sym", s)
    \/ \E s \in Subsets : \E r \in SUBSET Names :
          WithRandom /\ r \subseteq s /\ (Cardinality(r) = 1 \/ r = s) /\ DictRandom("dict-str", s, r)   \* documented with string keys only
    \/ \E h \in {"integrate", "integrate2", "jump"} : WithRandom /\ Integrate(h)
    \/ WithRandom /\ RejectWrongLength("list", NPar + 1)
    \/ \E s \in SUBSET Names : WithRandom /\ RejectUnknownDict("dict-str", s)

Next == FullMenu \/ RandomMenu

Spec == Init /\ [][Next]_vars

(* C09 *)
BoundToName == pval = given
RejectedBindsNothing == [][(hist' # hist /\ ~Last(hist').ok) => pval' = pval]_vars
PartialKeepsOthers ==
    [][(hist' # hist /\ Last(hist').act = "Dict") =>
          \A k \in Names : (\A j \in 1..Len(Last(hist').names) : Last(hist').names[j] # k) => pval'[k] = pval[k]]_vars
(* only partial dicts can leave a binding incomplete *)
HalfBoundOnlyByPartialDicts ==
    ((\E k \in Names : pval[k] # Unset) /\ ~AllBound) =>
        \A i \in 1..Len(hist) : hist[i].ok => hist[i].act \in {"Dict", "DictRandom"}
(* a name is re-drawn exactly while the value in force for it is a distribution's *)
RandomIffDistribution == \A k \in Names : rnd[k] <=> pval[k][1] < 0
(* an assignment that gives a name a number ends its re-drawing; integrations never change what a name is bound to *)
NumberEndsRedrawing ==
    [][(hist' # hist /\ Last(hist').ok /\ Last(hist').act \in {"Positional", "Pairs", "Dict", "Scalar"}) =>
          \A k \in Names : (\E j \in 1..Len(Last(hist').names) : Last(hist').names[j] = k) => ~rnd'[k]]_vars
IntegrateKeepsBinding == [][(hist' # hist /\ Last(hist').act = "Integrate") => (pval' = pval /\ rnd' = rnd)]_vars
=============================================================================
