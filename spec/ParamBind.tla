------------------------------ MODULE ParamBind ------------------------------
(***************************************************************************)
(* Layer L2: binding of parameter values (property C09).                   *)
(*                                                                         *)
(* Values are abstract tags <<call, j>> = "the j-th value written in call   *)
(* number `call`"; the harness maps tags to pairwise distinct numbers.     *)
(* Every accepted input form of `model.parameters = ...` is one action,    *)
(* written the way the form is consumed (positionally, pair by pair, key   *)
(* by key); every rejected input is an action that changes nothing.        *)
(* given is a ghost: the last value supplied *for that name*.              *)
(***************************************************************************)
EXTENDS Integers, Sequences, FiniteSets, SequencesExt, TLC

CONSTANTS NPar, MaxCalls,
          WithScalar      \* include the bare-number form of one-parameter models
VARIABLES pval, given, ncall, hist
vars == <<pval, given, ncall, hist>>

Unset  == <<0, 0>>
Names  == 1..NPar
Zz     == 0                     \* a name the model does not have
Perms  == {p \in [Names -> Names] : \A a, b \in Names : a # b => p[a] # p[b]}
Subsets == SUBSET Names \ {{}}
AllBound == \A k \in Names : pval[k] # Unset

Init == /\ pval = [k \in Names |-> Unset]
        /\ given = [k \in Names |-> Unset]
        /\ ncall = 0
        /\ hist = <<>>

Log(act, form, names, after, ok) ==
    /\ ncall < MaxCalls
    /\ ncall' = ncall + 1
    /\ hist' = Append(hist, [act |-> act, form |-> form, names |-> names, after |-> after, ok |-> ok])

(* ordered list / tuple / 1-d array / column array: the j-th value is for the j-th declared parameter *)
Positional(form) ==
    LET c == ncall + 1
        new == [k \in Names |-> <<c, k>>]
    IN  /\ form \in {"list", "tuple", "array", "colarray"}
        /\ pval' = new
        /\ given' = [k \in Names |-> <<c, k>>]
        /\ Log("Positional", form, [j \in Names |-> j], new, TRUE)

(* list / tuple of (name, value) pairs in any order: consumed pair by pair *)
RECURSIVE ApplyPairs(_, _, _, _)
ApplyPairs(f, perm, c, j) ==
    IF j > NPar THEN f ELSE ApplyPairs([f EXCEPT ![perm[j]] = <<c, j>>], perm, c, j + 1)
Pairs(form, perm) ==
    LET c == ncall + 1
        new == ApplyPairs(pval, perm, c, 1)
    IN  /\ form \in {"pairs-list", "pairs-tuple"}
        /\ pval' = new
        /\ given' = [k \in Names |-> <<c, CHOOSE j \in Names : perm[j] = k>>]
        /\ Log("Pairs", form, [j \in Names |-> perm[j]], new, TRUE)

(* dict keyed by name (str) or by symbol; a partial dict keeps the other values.       *)
(* A partial update presupposes earlier values, so it needs every parameter bound.    *)
Dict(form, sub) ==
    LET c == ncall + 1
        new == [k \in Names |-> IF k \in sub THEN <<c, k>> ELSE pval[k]]
    IN  /\ form \in {"dict-str", "dict-sym"}
        /\ (sub = Names \/ AllBound)
        /\ pval' = new
        /\ given' = [k \in Names |-> IF k \in sub THEN <<c, k>> ELSE given[k]]
        /\ Log("Dict", form, SetToSeq(sub), new, TRUE)

(* one-parameter models accept a bare number *)
Scalar ==
    /\ WithScalar /\ NPar = 1
    /\ pval' = [k \in Names |-> <<ncall + 1, 1>>]
    /\ given' = pval'
    /\ Log("Scalar", "scalar", <<1>>, pval', TRUE)

(* ---- rejected inputs: an error is raised and nothing is bound, now or later ---- *)
Reject(act, form, names) ==
    /\ UNCHANGED <<pval, given>>
    /\ Log(act, form, names, pval, FALSE)

RejectWrongLength(form, len) ==
    /\ form \in {"list", "tuple", "array", "rowarray", "pairs-list", "table"}
    /\ len \in {NPar - 1, NPar + 1} /\ len >= 1
    /\ (form = "table" => len = NPar + 1)      \* "table": an array with one ROW per parameter but several columns
    /\ Reject("RejectWrongLength", form, [j \in 1..len |-> IF j <= NPar THEN j ELSE Zz])
RejectUnknownPairs(perm, j) ==          \* the j-th pair names a parameter the model does not have
    /\ j \in Names
    /\ Reject("RejectUnknownPairs", "pairs-list", [i \in Names |-> IF i = j THEN Zz ELSE perm[i]])
RejectUnknownDict(form, sub) ==         \* valid keys first, then an unknown one
    /\ form \in {"dict-str", "dict-sym"}
    /\ Cardinality(sub) < NPar
    /\ Reject("RejectUnknownDict", form, SetToSeq(sub) \o <<Zz>>)
RejectTooMany ==
    Reject("RejectTooMany", "dict-str", [j \in 1..(NPar + 1) |-> IF j <= NPar THEN j ELSE Zz])
RejectBadType(form) ==
    /\ form \in {"string", "list-of-strings", "set"}
    /\ Reject("RejectBadType", form, <<>>)

Next ==
    \/ \E f \in {"list", "tuple", "array", "colarray"} : Positional(f)
    \/ \E f \in {"pairs-list", "pairs-tuple"} : \E p \in Perms : Pairs(f, p)
    \/ \E f \in {"dict-str", "dict-sym"} : \E s \in Subsets : Dict(f, s)
    \/ Scalar
    \/ \E f \in {"list", "tuple", "array", "rowarray", "pairs-list", "table"} : \E l \in {NPar - 1, NPar + 1} : RejectWrongLength(f, l)
    \/ \E p \in Perms : \E j \in Names : (p = [k \in Names |-> k] /\ RejectUnknownPairs(p, j))
    \/ \E f \in {"dict-str", "dict-sym"} : \E s \in SUBSET Names : RejectUnknownDict(f, s)
    \/ RejectTooMany
    \/ \E f \in {"string", "list-of-strings", "set"} : RejectBadType(f)

Spec == Init /\ [][Next]_vars

(* C09 *)
BoundToName == pval = given
RejectedBindsNothing == [][(hist' # hist /\ ~Last(hist').ok) => pval' = pval]_vars
PartialKeepsOthers ==
    [][(hist' # hist /\ Last(hist').act = "Dict") =>
          \A k \in Names : (\A j \in 1..Len(Last(hist').names) : Last(hist').names[j] # k) => pval'[k] = pval[k]]_vars
NeverHalfBound == (\E k \in Names : pval[k] # Unset) => AllBound
=============================================================================
