---------------------------- MODULE TR_Integrator ----------------------------
(***************************************************************************)
(* Trace validation of the deterministic entry points of ONE model against *)
(* Integrator.tla (with CopyRows = TRUE: the behaviour the property        *)
(* demands).  Each call is a sequence of events                            *)
(*    Step     r.integrate(t) returned                                     *)
(*    Append   the row was appended; carries the CONTENTS OF ALL ROWS SO   *)
(*             FAR as observed after this step                             *)
(*    Resetup  (full output) a new integrator object was created           *)
(*    Odeint   the odeint call of integrate / solve_determ                 *)
(*    Return   the array handed back to the user                           *)
(* Numbers are integers scaled by the call's scale; ref[j] is the          *)
(* reference solution at the j-th time (index 0 = initial state) computed  *)
(* by an independent integrator from the SPECIFICATION's right-hand side.  *)
(***************************************************************************)
EXTENDS Integrator, Json, IOUtils

Tr == JsonDeserialize(IOEnv.TRACE_FILE)
VARIABLES tid, l
tvars == <<vars, tid, l>>
Call == Tr.calls[tid]
Ev   == Call.events[l]
NEvts == Len(Call.events)
TraceNT == 0            \* unused: every call carries its own number of output times (variable nt)
AbsI(a) == IF a < 0 THEN -a ELSE a
(* an observed row is the solution point j *)
Matches(row, j) == /\ Len(row) = Len(Call.ref[j + 1])
                   /\ \A i \in 1..Len(row) : AbsI(row[i] - Call.ref[j + 1][i]) <= Call.tol
RowsMatchView(obs, view) == /\ Len(obs) = Len(view)
                            /\ \A i \in 1..Len(obs) : Matches(obs[i], view[i])
SumI(row) == LET RECURSIVE S(_)
                 S(i) == IF i = 0 THEN 0 ELSE row[i] + S(i - 1)
             IN S(Len(row))
ConservedOK(obs) == Call.closed => \A i \in 1..Len(obs) : AbsI(SumI(obs[i]) - SumI(Call.ref[1])) <= Call.sumtol

IsEvent(name) == l <= NEvts /\ Ev.ev = name /\ l' = l + 1 /\ tid' = tid

TraceInit ==
    /\ tid \in 1..Len(Tr.calls) /\ l = 1
    /\ method = Tr.calls[tid].method /\ fullOutput = Tr.calls[tid].fullOutput
    /\ includeOrigin = Tr.calls[tid].includeOrigin /\ reuses = FALSE /\ nt = Tr.calls[tid].nt
    /\ arr = [a \in {1} |-> 0] /\ yarr = 1 /\ nextArr = 2
    /\ rows = IF Tr.calls[tid].includeOrigin THEN << [kind |-> "val", v |-> 0] >> ELSE <<>>
    /\ k = 0 /\ pc = "step"

(* the integrator was set up with the specification's right-hand side and its Jacobian df_i/dx_j in the       *)
(* orientation the scipy routine expects (judged at the initial point by the recorder against the normal forms) *)
TrSetup   == IsEvent("Setup") /\ Ev.rhs = "ok" /\ Ev.jac \in {"ok", "none"} /\ UNCHANGED vars
TrStep    == IsEvent("Step") /\ Step
TrAppend  == IsEvent("Append") /\ AppendRow /\ RowsMatchView(Ev.rows, View') /\ ConservedOK(Ev.rows)
TrResetup == IsEvent("Resetup") /\ Resetup
TrOdeint  == IsEvent("Odeint") /\ Odeint
TrReturn  == IsEvent("Return") /\ Return /\ Len(Ev.rows) = nt + Origin
             /\ RowsMatchView(Ev.rows, View) /\ ConservedOK(Ev.rows)

(* the call raised the documented integration error at step k+1 *)
TrRefuse  == IsEvent("Refuse") /\ Refuse
TraceNext == TrSetup \/ TrRefuse \/ TrStep \/ TrAppend \/ TrResetup \/ TrOdeint \/ TrReturn
TraceSpec == TraceInit /\ [][TraceNext]_tvars
Progress == PrintT(<<"AT", tid, l, NEvts + 1>>)
=============================================================================
