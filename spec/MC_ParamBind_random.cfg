SPECIFICATION Spec
CONSTANTS
  NPar = 2
  MaxCalls = 3
  DumpOn = FALSE
  WithScalar = FALSE
  WithRandom = TRUE
INVARIANT BoundToName
INVARIANT HalfBoundOnlyByPartialDicts
INVARIANT RandomIffDistribution
INVARIANT Dump
PROPERTY RejectedBindsNothing
PROPERTY PartialKeepsOthers
PROPERTY NumberEndsRedrawing
PROPERTY IntegrateKeepsBinding
CHECK_DEADLOCK FALSE
