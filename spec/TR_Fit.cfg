SPECIFICATION TSpec
CONSTANTS
  Models <- MCModels
  NParams <- MCNParams
  Classes <- MCClasses
  MaxFree = 2
  DumpOn = FALSE
INVARIANT Progress
CHECK_DEADLOCK FALSE
