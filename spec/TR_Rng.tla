------------------------------- MODULE TR_Rng -------------------------------
(***************************************************************************)
(* Trace validation of recorded seeding / simulation sessions against Rng  *)
(* with every source "global" (what the property demands).  Events:        *)
(*   Seed  s, st                 numpy.random.seed(s); st = id of the       *)
(*                               global generator's state afterwards        *)
(*   Run   c, dig, st, foreign,  one simulation call of configuration c;    *)
(*         nonglobal, mean       dig = id of everything it returned, st =   *)
(*                               global state id afterwards, foreign = non- *)
(*                               global generators created during the call, *)
(*                               nonglobal = draws taken from them, mean =   *)
(*                               "ok" / "bad" / "na" (reported mean = mean   *)
(*                               of the runs returned alongside it)          *)
(* The abstract output of the specification is bound to the logged digest:  *)
(* equal abstract outputs must have equal digests (Reproducible), abstract  *)
(* outputs that differ in the seed only must have different digests         *)
(* (SeedSensitive; only for configurations with continuous output and only *)
(* in sessions where the recorder established -- from the SPECIFICATION's   *)
(* right-hand side -- that the output depends on the drawn values), and the  *)
(* global state after an event is a function of <<seed, hist>>.             *)
(***************************************************************************)
EXTENDS Rng, Json, IOUtils, FiniteSetsExt

Tr == JsonDeserialize(IOEnv.TRACE_FILE)
VARIABLES tid, l, bind, bindSt
tvars == <<rvars, tid, l, bind, bindSt>>
Sess == Tr.sessions[tid]
Ev == Sess.events[l]
NEv == Len(Sess.events)

TraceSeeds   == {Tr.seeds[i] : i \in 1..Len(Tr.seeds)}
TraceConfigs == {Tr.configs[i].name : i \in 1..Len(Tr.configs)}
CfgRec(c)    == Tr.configs[CHOOSE i \in 1..Len(Tr.configs) : Tr.configs[i].name = c]
TraceDraws   == [c \in TraceConfigs |-> CfgRec(c).draws]
TraceSource  == [c \in TraceConfigs |-> "global"]
Continuous(c) == CfgRec(c).continuous

Empty == [x \in {} |-> 0]
Bound(f, k, v) == IF k \in DOMAIN f THEN f[k] = v ELSE TRUE
Bind(f, k, v)  == IF k \in DOMAIN f THEN f ELSE [x \in DOMAIN f \cup {k} |-> IF x = k THEN v ELSE f[x]]

IsEvent(name) == l <= NEv /\ Ev.ev = name /\ l' = l + 1 /\ tid' = tid

TraceInit == Init /\ tid \in 1..Len(Tr.sessions) /\ l = 1 /\ bind = Empty /\ bindSt = Empty

TrSeed ==
    /\ IsEvent("Seed") /\ SeedIt(Ev.s)
    /\ Bound(bindSt, <<Ev.s, <<>>>>, Ev.st)
    /\ bindSt' = Bind(bindSt, <<Ev.s, <<>>>>, Ev.st)
    /\ UNCHANGED bind

SeedOnlyDiffers(o1, o2) == o1[1] = "g" /\ o2[1] = "g" /\ o1[2] # o2[2] /\ o1[3] = o2[3] /\ o1[4] = o2[4]

TrRun ==
    /\ IsEvent("Run") /\ Run(Ev.c)
    /\ Ev.foreign = 0 /\ Ev.nonglobal = 0                    \* every draw of a serial run comes from the global stream
    /\ Ev.mean \in {"ok", "na"}
    /\ LET o == OutOf(Ev.c) IN
       /\ Bound(bind, o, Ev.dig)                              \* Reproducible
       /\ ((Continuous(Ev.c) /\ Ev.cont) =>
             \A o2 \in DOMAIN bind : SeedOnlyDiffers(o, o2) => bind[o2] # Ev.dig)    \* SeedSensitive
       /\ bind' = Bind(bind, o, Ev.dig)
    /\ Bound(bindSt, <<seed', hist'>>, Ev.st)
    /\ bindSt' = Bind(bindSt, <<seed', hist'>>, Ev.st)

TraceNext == TrSeed \/ TrRun
TraceSpec == TraceInit /\ [][TraceNext]_tvars
Progress == PrintT(<<"AT", tid, l, NEv + 1>>)
=============================================================================
