---- MODULE MC_Integrator ----
EXTENDS Integrator
MCMethods == {"None", "lsoda", "vode", "ivode", "dopri5", "dop853", "odeint"}
====
