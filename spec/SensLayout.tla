------------------------------ MODULE SensLayout ------------------------------
(***************************************************************************)
(* Augmented systems of a model definition (C13; used by C07 / C20).       *)
(*                                                                         *)
(* The symbol table of the definition D is extended by                     *)
(*     s[i][k] = dx_i/dtheta_k      (ns*np forward sensitivities)          *)
(*     z[i][j] = dx_i/dx0_j         (ns*ns initial-value sensitivities)    *)
(*     h[i][k][l] = d2x_i/dth_k dth_l  (ns*np*np second-order ones)        *)
(* so that the augmented right-hand sides are ordinary polynomial vectors  *)
(* and THEIR Jacobians are obtained by differentiating them -- the block   *)
(* structure the implementation assembles by hand (kron(I, J),             *)
(* grad_jacobian, diff_jacobian.S ...) is written down separately          *)
(* (the Block operators) the way the code computes it; its equality with the *)
(* derivative is something TLC checks, not a definition.                   *)
(*                                                                         *)
(* Vector layouts (the documented ones):                                   *)
(*   by parameter  vecF: position (k-1)*ns + i   (Fortran order of ns x np)*)
(*   by state      vecC: position (i-1)*np + k   (C order)                 *)
(*   initial value vecF of the ns x ns matrix: position (j-1)*ns + i       *)
(***************************************************************************)
EXTENDS ModelSem

NSens(D) == D.ns * D.np
NIv(D)   == D.ns * D.ns
(* the second-order block is only allocated for definitions that ask for it (field ff) *)
HasFf(D) == ("ff" \in DOMAIN D) /\ D.ff
NFf(D)   == IF HasFf(D) THEN D.ns * D.np * D.np ELSE 0
N2(D)    == D.n + NSens(D) + NIv(D) + NFf(D)

SIdx(D, i, k)    == D.n + (k - 1) * D.ns + i
ZIdx(D, i, j)    == D.n + NSens(D) + (j - 1) * D.ns + i
(* second order: block of state i, then the np x np matrix row by row (k, then l) *)
HIdx(D, i, k, l) == D.n + NSens(D) + NIv(D) + (i - 1) * D.np * D.np + (k - 1) * D.np + l

Up(D, p)   == PPad(p, D.n, N2(D))
AtomsUp(D) == [j \in DOMAIN D.atoms |->
                 [kind |-> D.atoms[j].kind, arg |-> Up(D, D.atoms[j].arg), pair |-> D.atoms[j].pair]]

SSym(D, i, k)    == PSym(SIdx(D, i, k), N2(D))
ZSym(D, i, j)    == PSym(ZIdx(D, i, j), N2(D))
HSym(D, i, k, l) == PSym(HIdx(D, i, k, l), N2(D))

UpV(D, v) == [i \in 1..Len(v) |-> Up(D, v[i])]
UpM(D, M) == [i \in 1..Len(M) |-> UpV(D, M[i])]

---------------------------------------------------------------------------
(* layouts *)
VecF(M, nr, nc) == [q \in 1..(nr * nc) |-> M[((q - 1) % nr) + 1][((q - 1) \div nr) + 1]]
VecC(M, nr, nc) == [q \in 1..(nr * nc) |-> M[((q - 1) \div nc) + 1][((q - 1) % nc) + 1]]
MatF(v, nr, nc) == [i \in 1..nr |-> [j \in 1..nc |-> v[(j - 1) * nr + i]]]
MatC(v, nr, nc) == [i \in 1..nr |-> [j \in 1..nc |-> v[(i - 1) * nc + j]]]
(* round-trip laws of the reshapes (vecToMatSens / matToVecSens) *)
RoundTripF(M, nr, nc) == MatF(VecF(M, nr, nc), nr, nc) = M
RoundTripC(M, nr, nc) == MatC(VecC(M, nr, nc), nr, nc) = M

---------------------------------------------------------------------------
(* the variational right-hand sides, as matrices over the extended table *)
SensRhs(D) ==
    LET J == UpM(D, Jac(D))
        G == UpM(D, Grad(D))
    IN  [i \in 1..D.ns |-> [k \in 1..D.np |->
            PAdd(PSumOver(1..D.ns, LAMBDA j : PMul(J[i][j], SSym(D, j, k))), G[i][k])]]
IvRhs(D) ==
    LET J == UpM(D, Jac(D))
    IN  [i \in 1..D.ns |-> [j \in 1..D.ns |->
            PSumOver(1..D.ns, LAMBDA a : PMul(J[i][a], ZSym(D, a, j)))]]

F2(D) == UpV(D, Ode(D))

AugP(D)  == F2(D) \o VecF(SensRhs(D), D.ns, D.np)
AugS(D)  == F2(D) \o VecC(SensRhs(D), D.ns, D.np)
AugIV(D) == AugP(D) \o VecF(IvRhs(D), D.ns, D.ns)

(* the variables of each augmented system in the order of its vector *)
SensVarsF(D) == [q \in 1..NSens(D) |-> SIdx(D, ((q - 1) % D.ns) + 1, ((q - 1) \div D.ns) + 1)]
SensVarsC(D) == [q \in 1..NSens(D) |-> SIdx(D, ((q - 1) \div D.np) + 1, ((q - 1) % D.np) + 1)]
IvVars(D)    == [q \in 1..NIv(D)   |-> ZIdx(D, ((q - 1) % D.ns) + 1, ((q - 1) \div D.ns) + 1)]
StateVars(D) == [i \in 1..D.ns |-> i]
VarsP(D)  == StateVars(D) \o SensVarsF(D)
VarsS(D)  == StateVars(D) \o SensVarsC(D)
VarsIV(D) == VarsP(D) \o IvVars(D)

(* ... and their Jacobians: the derivative, nothing else *)
JacAugP(D)  == JacobianOf(AugP(D),  VarsP(D),  AtomsUp(D), N2(D))
JacAugS(D)  == JacobianOf(AugS(D),  VarsS(D),  AtomsUp(D), N2(D))
JacAugIV(D) == JacobianOf(AugIV(D), VarsIV(D), AtomsUp(D), N2(D))

---------------------------------------------------------------------------
(* Second order (forward-forward) system: differentiate the sensitivity    *)
(* equation once more with respect to theta_l along the solution:          *)
(*   d/dt h[i][k][l] = d/dth_l ( sum_j J[i][j] s[j][k] + G[i][k] )         *)
(* where d/dth_l acts on the explicit theta AND through x (dx_a/dth_l =    *)
(* s[a][l]) and through s (ds[j][k]/dth_l = h[j][k][l]).                   *)
TotalDTheta(D, p, l) ==
    LET A == AtomsUp(D)
        n == N2(D)
    IN  PAdd(PDiff(p, ParamIdx(D, l), A, n),
        PAdd(PSumOver(1..D.ns, LAMBDA a : PMul(PDiff(p, a, A, n), SSym(D, a, l))),
             PSumOver((1..D.ns) \X (1..D.np),
                      LAMBDA jk : PMul(PDiffPlain(p, SIdx(D, jk[1], jk[2])), HSym(D, jk[1], jk[2], l)))))
FfRhs(D) ==
    LET R == SensRhs(D)
    IN  [i \in 1..D.ns |-> [k \in 1..D.np |-> [l \in 1..D.np |-> TotalDTheta(D, R[i][k], l)]]]
FfVec(D) ==
    LET R == FfRhs(D)
    IN  [q \in 1..NFf(D) |->
            LET i == ((q - 1) \div (D.np * D.np)) + 1
                r == (q - 1) % (D.np * D.np)
            IN  R[i][(r \div D.np) + 1][(r % D.np) + 1]]
AugFF(D) == AugP(D) \o FfVec(D)
FfVars(D) == [q \in 1..NFf(D) |-> D.n + NSens(D) + NIv(D) + q]
(* the right-hand side of h[i][k][l] is that of h[i][l][k] with the roles of k and l exchanged; with   *)
(* symmetric initial values (zero) the second-order sensitivities are therefore symmetric in (k, l). *)
(* Checked as: the k<->l swap of symbols maps FfRhs[i][k][l] to FfRhs[i][l][k].                      *)
SwapKL(D, m) ==
    [q \in 1..N2(D) |->
        IF q <= D.n + NSens(D) + NIv(D) THEN m[q]
        ELSE LET r == q - (D.n + NSens(D) + NIv(D)) - 1
                 i == r \div (D.np * D.np)
                 k == (r % (D.np * D.np)) \div D.np
                 l == r % D.np
             IN  m[D.n + NSens(D) + NIv(D) + i * D.np * D.np + l * D.np + k + 1]]
PSwapKL(D, p) == [m \in {SwapKL(D, x) : x \in DOMAIN p} |-> p[SwapKL(D, m)]]
FfSymmetric(D) ==
    LET R == FfRhs(D)
    IN  \A i \in 1..D.ns : \A k \in 1..D.np : \A l \in 1..D.np : PSwapKL(D, R[i][k][l]) = R[i][l][k]

---------------------------------------------------------------------------
(* The block assembly the implementation performs (ode_and_sensitivity_    *)
(* jacobian and ode_and_sensitivityIV_jacobian), from DiffJac and GradJac   *)
(* in their documented row conventions.                                     *)
ZeroM(nr, nc) == [i \in 1..nr |-> [j \in 1..nc |-> PZero]]
(* sens_jacobian_state: reshape((DJ . S)^T, (ns*np, ns)) -- row (k-1)*ns+i, column a *)
SensJacStateWith(D, Sf(_, _)) ==
    LET DJ == UpM(D, DiffJac(D))
    IN  [r \in 1..NSens(D) |->
            LET k == ((r - 1) \div D.ns) + 1
                i == ((r - 1) % D.ns) + 1
            IN  [a \in 1..D.ns |->
                    PSumOver(1..D.ns, LAMBDA b : PMul(DJ[(i - 1) * D.ns + a][b], Sf(b, k)))]]
SensJacState(D) == SensJacStateWith(D, LAMBDA b, k : SSym(D, b, k))
IvJacState(D) ==
    LET DJ == UpM(D, DiffJac(D))
    IN  [r \in 1..NIv(D) |->
            LET j == ((r - 1) \div D.ns) + 1
                i == ((r - 1) % D.ns) + 1
            IN  [a \in 1..D.ns |->
                    PSumOver(1..D.ns, LAMBDA b : PMul(DJ[(i - 1) * D.ns + a][b], ZSym(D, b, j)))]]
KronIJ(D, m) ==       \* kron(I_m, J)
    LET J == UpM(D, Jac(D))
    IN  [r \in 1..(m * D.ns) |-> [c \in 1..(m * D.ns) |->
            IF (r - 1) \div D.ns = (c - 1) \div D.ns
            THEN J[((r - 1) % D.ns) + 1][((c - 1) % D.ns) + 1] ELSE PZero]]
HCat(A, B) == [i \in 1..Len(A) |-> A[i] \o B[i]]
MAddM(A, B) == [i \in 1..Len(A) |-> [j \in 1..Len(A[i]) |-> PAdd(A[i][j], B[i][j])]]

BlockP(D) ==
    LET J  == UpM(D, Jac(D))
        GJ == UpM(D, GradJac(D))
    IN  HCat(J, ZeroM(D.ns, NSens(D))) \o HCat(MAddM(GJ, SensJacState(D)), KronIJ(D, D.np))
BlockIV(D) ==
    LET J  == UpM(D, Jac(D))
        GJ == UpM(D, GradJac(D))
    IN  HCat(HCat(J, ZeroM(D.ns, NSens(D))), ZeroM(D.ns, NIv(D)))
        \o HCat(HCat(MAddM(GJ, SensJacState(D)), KronIJ(D, D.np)), ZeroM(NSens(D), NIv(D)))
        \o HCat(HCat(IvJacState(D), ZeroM(NIv(D), NSens(D))), KronIJ(D, D.ns))
(* by state: the same matrix with rows AND columns of the sensitivity part  *)
(* permuted from by-parameter to by-state order                            *)
PermSF(D, q) ==       \* position in the by-parameter vector of the q-th by-state entry (both 1-based, sens part)
    LET i == ((q - 1) \div D.np) + 1
        k == ((q - 1) % D.np) + 1
    IN  (k - 1) * D.ns + i
FullPerm(D, q) == IF q <= D.ns THEN q ELSE D.ns + PermSF(D, q - D.ns)
BlockS(D) ==
    LET B == BlockP(D)
        m == D.ns + NSens(D)
    IN  [r \in 1..m |-> [c \in 1..m |-> B[FullPerm(D, r)][FullPerm(D, c)]]]

(* Negative control (the pinned tree's by_state branch, DESIGN 7-D8): rows taken with the index     *)
(* vector i*(ns-1)+j, columns not permuted, and the by-state input vector read as if it were in     *)
(* by-parameter order.  TLC must find that this is NOT the derivative.                              *)
BlockSPinned(D) ==
    LET J   == UpM(D, Jac(D))
        GJ  == UpM(D, GradJac(D))
        \* entry (b, k) of vecToMatSens applied to the by-state vector: position (k-1)*ns+b of that vector
        Mis(b, k) == PSym(SensVarsC(D)[(k - 1) * D.ns + b], N2(D))
        low == MAddM(GJ, SensJacStateWith(D, Mis))
        kr  == KronIJ(D, D.np)
        arr(q) == LET j == (q - 1) \div D.ns
                      i == (q - 1) % D.ns
                  IN  i * (D.ns - 1) + j + 1
    IN  HCat(J, ZeroM(D.ns, NSens(D)))
        \o [q \in 1..NSens(D) |-> low[arr(q)] \o kr[arr(q)]]

BlocksAreDerivatives(D) ==
    /\ BlockP(D)  = JacAugP(D)
    /\ BlockS(D)  = JacAugS(D)
    /\ BlockIV(D) = JacAugIV(D)
LayoutLaws(D) ==
    LET R  == SensRhs(D)
        aP == AugP(D)
        aS == AugS(D)
    IN  /\ RoundTripF(R, D.ns, D.np)
        /\ RoundTripC(R, D.ns, D.np)
        /\ Len(aP) = D.ns + NSens(D) /\ Len(aS) = Len(aP)
        /\ Len(AugIV(D)) = D.ns + NSens(D) + NIv(D)
        /\ \A q \in 1..NSens(D) : aS[D.ns + q] = aP[D.ns + PermSF(D, q)]
(* A Jacobian entry is d(right-hand side of variable r)/d(variable c): every arrangement is therefore a   *)
(* re-indexing of the largest one.  (Used by the oracle to derive all three from one differentiation.)   *)
PosIV(D, sym) == CHOOSE q \in 1..Len(VarsIV(D)) : VarsIV(D)[q] = sym
ArrangementsAreReindexings(D) ==
    LET JIV == JacAugIV(D)
        JP  == JacAugP(D)
        JS  == JacAugS(D)
        vP  == VarsP(D)
        vS  == VarsS(D)
    IN  /\ \A r \in 1..Len(vP) : \A c \in 1..Len(vP) : JP[r][c] = JIV[PosIV(D, vP[r])][PosIV(D, vP[c])]
        /\ \A r \in 1..Len(vS) : \A c \in 1..Len(vS) : JS[r][c] = JIV[PosIV(D, vS[r])][PosIV(D, vS[c])]
=============================================================================
