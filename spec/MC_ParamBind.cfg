SPECIFICATION Spec
CONSTANTS
  NPar = 3
  MaxCalls = 2
  DumpOn = FALSE
  WithScalar = FALSE
  WithRandom = FALSE
INVARIANT BoundToName
INVARIANT HalfBoundOnlyByPartialDicts
INVARIANT RandomIffDistribution
INVARIANT Dump
PROPERTY RejectedBindsNothing
PROPERTY PartialKeepsOthers
PROPERTY NumberEndsRedrawing
PROPERTY IntegrateKeepsBinding
CHECK_DEADLOCK FALSE
