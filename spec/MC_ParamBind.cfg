SPECIFICATION Spec
CONSTANTS
  NPar = 3
  MaxCalls = 2
  DumpOn = FALSE
  WithScalar = FALSE
INVARIANT BoundToName
INVARIANT NeverHalfBound
INVARIANT Dump
PROPERTY RejectedBindsNothing
PROPERTY PartialKeepsOthers
CHECK_DEADLOCK FALSE
