---------------------------- MODULE MC_PygomModel ----------------------------
EXTENDS PygomModel, Json
\* symbols: 1 S, 2 I, 3 t, 4 b, 5 g, 6 k (added later), 7 d1 = b*g (added later), 8 H = 1/(1+g*I)
n0 == 8
sS == PSym(1, n0)  sI == PSym(2, n0)  sb == PSym(4, n0)  sg == PSym(5, n0)  sk == PSym(6, n0)
sd == PSym(7, n0)  sH == PSym(8, n0)
one == POne(n0)
two == PConst(RInt(2), n0)
MCAtoms   == [j \in {8} |-> [kind |-> "H", arg |-> PMul(sg, sI), pair |-> 0]]
MCDerived == << PMul(sb, sg) >>
Tr(ty, o, d, mag) == [ty |-> ty, o |-> o, d |-> d, mag |-> mag]
Ev(rate, trs) == [kind |-> "event", rate |-> rate, trs |-> trs, st |-> 0, eqn |-> PZero]
Od(st, eqn)   == [kind |-> "ode", rate |-> PZero, trs |-> <<>>, st |-> st, eqn |-> eqn]
MCMenu == <<
    Ev(PMul(sb, PMul(sS, sI)),      << Tr("T", 1, 2, one) >>),
    Ev(PMul(sg, sI),                << Tr("T", 2, 1, two) >>),
    Ev(sb,                          << Tr("B", 0, 1, one) >>),
    Ev(PMul(PMul(sg, sI), sH),      << Tr("D", 2, 0, one) >>),
    Ev(PMul(sk, sS),                << Tr("D", 1, 0, one) >>),
    Ev(PMul(sd, sS),                << Tr("B", 0, 2, one) >>),
    Od(1, PNeg(PMul(sb, sS))),
    Od(2, PMul(sk, PMul(sS, sI)))
>>
MCNeeds == << [p |-> 2, d |-> 0], [p |-> 2, d |-> 0], [p |-> 2, d |-> 0], [p |-> 2, d |-> 0],
              [p |-> 3, d |-> 0], [p |-> 2, d |-> 1], [p |-> 2, d |-> 0], [p |-> 3, d |-> 0] >>
MCBase == << 1 >>

TermsOfProc(p) ==
    [kind |-> p.kind, rate |-> PToTerms(p.rate), st |-> p.st, eqn |-> PToTerms(p.eqn),
     trs  |-> [k \in 1..Len(p.trs) |-> [ty |-> p.trs[k].ty, o |-> p.trs[k].o, d |-> p.trs[k].d,
                                         mag |-> PToTerms(p.trs[k].mag)]]]
Header ==
    [menu |-> [k \in 1..Len(MCMenu) |-> TermsOfProc(MCMenu[k])],
     base |-> MCBase,
     sym  |-> [ns |-> 2, np |-> 3, nd |-> 1, n |-> n0, np0 |-> 2,
               atoms   |-> << [idx |-> 8, kind |-> "H", arg |-> PToTerms(MCAtoms[8].arg), pair |-> 0] >>,
               derived |-> [k \in 1..Len(MCDerived) |-> PToTerms(MCDerived[k])]]]
ASSUME PrintT(ToJson(Header))
Dump == (Len(obs) = MaxObs) => PrintT(ToJson([obs |-> obs]))

(* Directed family, explored exhaustively: bind; evaluate e (compiles it); ONE mutation of any kind  *)
(* through any route; (re-bind if a parameter was added); evaluate e again as the first evaluation. *)
(* This visits every (mutator kind, evaluator) pair with the evaluator compiled before.             *)
DNext ==
    /\ mode' = "choose"
    /\ CASE Len(obs) = 0 -> SetAll("list")
          [] Len(obs) = 1 -> \E e \in EvalNames : Evaluate(e)
          [] Len(obs) = 2 -> \/ \E k \in 1..Len(Menu) : \E r \in Routes(Menu[k]) : Mutate(k, r)
                             \/ AddParam \/ AddDerived
                             \/ SetAll("dict") \/ \E j \in 1..NPX : SetOne(j)
          [] Len(obs) = 3 -> IF AllBoundL THEN Evaluate(obs[2].e) ELSE SetAll("list")
          [] Len(obs) = 4 -> obs[4].act = "SetParams" /\ Evaluate(obs[2].e)
          [] OTHER -> FALSE
DSpec == PInit /\ [][DNext]_pvars
DDone == \/ (Len(obs) = 4 /\ obs[4].act = "Evaluate")
         \/ Len(obs) = 5
DDump == DDone => PrintT(ToJson([obs |-> obs]))
=============================================================================
