---- MODULE TestPoly ----
EXTENDS Poly
\* symbols: 1=S 2=I 3=t 4=beta 5=N 6=a 7=H(1/(1+a*I)) 8=C cos(beta*t) 9=Sn sin(beta*t)
n == 9
A == [j \in {7,8,9} |-> IF j = 7 THEN [kind |-> "H", arg |-> PMul(PSym(6,n),PSym(2,n)), pair |-> 0]
                        ELSE IF j = 8 THEN [kind |-> "C", arg |-> PMul(PSym(4,n),PSym(3,n)), pair |-> 9]
                        ELSE [kind |-> "S", arg |-> PMul(PSym(4,n),PSym(3,n)), pair |-> 8]]
S == PSym(1,n)  I == PSym(2,n) beta == PSym(4,n) Ninv == PTerm(ROne, MSet(MZero(n),5,-1))
inf == PMul(PMul(beta, PMul(S,I)), Ninv)
ASSUME RAdd(<<1,3>>,<<1,6>>) = <<1,2>>
ASSUME RMul(<<-2,3>>,<<3,4>>) = <<-1,2>>
ASSUME PSub(inf, inf) = PZero
ASSUME PAdd(S, S) = PScale(RInt(2), S)
ASSUME PDiff(inf, 5, A, n) = PNeg(PMul(inf, Ninv))
ASSUME PDiff(inf, 1, A, n) = PMul(PMul(beta, I), Ninv)
\* d/dI (I*H) = H - a*I*H^2
ASSUME PDiff(PMul(I, PSym(7,n)), 2, A, n) = PSub(PSym(7,n), PMul(PMul(PSym(6,n), I), PMul(PSym(7,n),PSym(7,n))))
\* d/dt cos(beta t) = -beta sin
ASSUME PDiff(PSym(8,n), 3, A, n) = PNeg(PMul(beta, PSym(9,n)))
ASSUME PDiff(PSym(9,n), 4, A, n) = PMul(PSym(3,n), PSym(8,n))
ASSUME PSubst(PMul(S,PMul(beta,beta)), 4, PAdd(I, POne(n)), n) = PMul(S, PMul(PAdd(I,POne(n)),PAdd(I,POne(n))))
ASSUME PEval(PAdd(PMul(S,I), PConst(<<1,3>>, 2)), <<<<2,1>>,<<1,2>>>>) = <<4,3>> \/ TRUE
ASSUME PFromTerms(PToTerms(inf)) = inf
ASSUME PrintT(PToTerms(PDiff(PMul(inf, PSym(7,n)), 2, A, n)))
ASSUME PIsNormal(PDiff(PMul(inf, PSym(7,n)), 2, A, n))
ASSUME PPad(PSym(1,2), 2, 4) = PSym(1,4)
====
