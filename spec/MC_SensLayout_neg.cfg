SPECIFICATION Spec
CONSTANT MaxSel = 1
INVARIANT InvPinnedByState
CHECK_DEADLOCK FALSE
