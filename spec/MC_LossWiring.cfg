SPECIFICATION Spec
CONSTANTS
  NS = 3
  NP = 3
  NT = 2
  NV = 1
  MaxCalls = 1
  POps = {"cost"}
  IOps = {"costIV"}
  DumpOn = FALSE
  DumpDepth = 0
  ScriptId = "C06"
INVARIANT InvColumnsP
INVARIANT InvColumnsIV
INVARIANT InvRecipeInjective
INVARIANT InvNonTargetsKeepConstructorValue
INVARIANT InvRegistersAreLastSupplied
PROPERTY WiringNeverChanges
CHECK_DEADLOCK FALSE
