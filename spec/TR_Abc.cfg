SPECIFICATION TraceSpec
CONSTANTS
  N <- TraceN
  MaxGen <- TraceMaxGen
  MaxRank <- TraceMaxRank
  Mode <- TraceMode
INVARIANT Progress
INVARIANT AcceptedUnderTol
INVARIANT NothingSurvivesARestart
INVARIANT TolerancesNeverIncrease
CHECK_DEADLOCK FALSE
