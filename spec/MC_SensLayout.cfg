SPECIFICATION Spec
CONSTANT MaxSel = 3
INVARIANT InvBlocks
INVARIANT InvLayout
INVARIANT InvFfSym
INVARIANT InvLen
INVARIANT InvReindex
CHECK_DEADLOCK FALSE
