-------------------------------- MODULE Abc --------------------------------
(***************************************************************************)
(* Layer L8: ABC rejection / SMC (C17).                                    *)
(*                                                                         *)
(* Costs and tolerances are abstracted to their ranks (small integers):    *)
(* only their order matters.  A run consists of generations; in each, trial *)
(* particles are proposed until N have been accepted.  A trial is a pair    *)
(* (cost, priorPositive); it is accepted iff the prior density is positive  *)
(* AND the cost is strictly below the generation's tolerance.  The next     *)
(* tolerance is the next entry of the user's list, or -- with a quantile --  *)
(* a quantile of the accepted distances, i.e. some value between their      *)
(* minimum and maximum.  A run may be continued with a first tolerance not  *)
(* above the last one used.  The object may also be used again for a FRESH    *)
(* run (Restart) with another population size: nothing of the earlier run    *)
(* survives in what it exposes.  N bounds the population; n is the           *)
(* population of the run in progress.                                        *)
(***************************************************************************)
EXTENDS Integers, Sequences, FiniteSets, FiniteSetsExt, TLC

CONSTANTS N, MaxGen, MaxRank,
          Mode                 \* "rejection" | "list" | "quantile"

VARIABLES gen,                 \* number of the current generation (1-based), 0 before the run
          tol,                 \* its tolerance (rank)
          parts,               \* accepted particles of the current generation: [cost, prior, tol, gen]
          post,                \* the posterior sample: the last completed generation
          tols,                \* tolerances used so far
          trials,              \* trials made in this generation (bounds the model)
          runs,                \* completed get / continue calls
          n                    \* population size asked for by the current run (1..N)
avars == <<gen, tol, parts, post, tols, trials, runs, n>>

Ranks == 0..MaxRank
Init == gen = 0 /\ tol = 0 /\ parts = <<>> /\ post = <<>> /\ tols = <<>> /\ trials = 0 /\ runs = 0 /\ n = N

Start(t0, m) == /\ gen = 0 /\ runs = 0 /\ m \in 1..N
                /\ gen' = 1 /\ tol' = t0 /\ tols' = <<t0>> /\ parts' = <<>> /\ trials' = 0 /\ n' = m
                /\ UNCHANGED <<post, runs>>
(* get_posterior_sample on an object that has been used before: a fresh run, with its own population size *)
Restart(t0, m) == /\ gen = 0 /\ runs > 0 /\ m \in 1..N
                  /\ gen' = 1 /\ tol' = t0 /\ tols' = <<t0>> /\ parts' = <<>> /\ trials' = 0 /\ n' = m
                  /\ post' = <<>> /\ runs' = 0

Accepts(c, p) == p /\ c < tol
Trial(c, p) ==
    /\ gen > 0 /\ Len(parts) < n /\ trials < n + 2
    /\ trials' = trials + 1
    /\ parts' = IF Accepts(c, p) THEN Append(parts, [cost |-> c, prior |-> p, tol |-> tol, gen |-> gen]) ELSE parts
    /\ UNCHANGED <<gen, tol, post, tols, runs, n>>

Dists(ps) == {ps[i].cost : i \in 1..Len(ps)}
NextTols(ps) ==
    CASE Mode = "quantile" -> Min(Dists(ps))..Max(Dists(ps))      \* any quantile of the accepted distances
      [] Mode = "list"     -> {t \in Ranks : t <= tol}             \* a decreasing list supplied by the user
      [] OTHER             -> {}
EndGeneration ==
    /\ gen > 0 /\ Len(parts) = n
    /\ post' = parts /\ UNCHANGED n
    /\ \/ /\ gen < MaxGen /\ Mode # "rejection"
          /\ \E t \in NextTols(parts) : tol' = t /\ tols' = Append(tols, t)
          /\ gen' = gen + 1 /\ parts' = <<>> /\ trials' = 0 /\ UNCHANGED runs
       \/ /\ gen' = 0 /\ runs' = runs + 1 /\ parts' = <<>> /\ trials' = 0     \* the call returns
          /\ UNCHANGED <<tol, tols>>

(* continue_posterior_sample(tol0): tol0 must not exceed the final tolerance of the previous run *)
Continue(t0) ==
    /\ gen = 0 /\ runs > 0 /\ runs < 2 /\ t0 <= tol
    /\ gen' = 1 /\ tol' = t0 /\ tols' = Append(tols, t0) /\ parts' = <<>> /\ trials' = 0
    /\ UNCHANGED <<post, runs, n>>

Next == (\E t \in Ranks : Continue(t) \/ \E m \in 1..N : Start(t, m) \/ Restart(t, m))
        \/ (\E c \in Ranks : \E p \in BOOLEAN : Trial(c, p)) \/ EndGeneration
Spec == Init /\ [][Next]_avars

(* C17 *)
ParticleOK(x) == x.prior /\ x.cost < x.tol
AcceptedUnderTol == (\A i \in 1..Len(parts) : ParticleOK(parts[i])) /\ (\A i \in 1..Len(post) : ParticleOK(post[i]))
TolerancesNeverIncrease == (Mode = "quantile") => \A i \in 1..(Len(tols) - 1) : tols[i + 1] <= tols[i]
PosteriorComplete == (runs > 0 /\ gen = 0) => Len(post) = n
(* what is exposed belongs to the run that produced it: every particle of the posterior carries a tolerance of THIS run *)
NothingSurvivesARestart == \A i \in 1..Len(post) : \E j \in 1..Len(tols) : post[i].tol = tols[j]
=============================================================================
