------------------------------ MODULE Integrator ------------------------------
(***************************************************************************)
(* Layer L5: the protocol by which the deterministic entry points collect  *)
(* the solution rows (ode_utils.integrateFuncJac and its callers).         *)
(*                                                                         *)
(* An integrator object owns a y buffer: an array with an identity.  A     *)
(* step makes that buffer hold the solution at the next requested time --  *)
(* by updating the same array in place or by installing a new array, which *)
(* of the two is a property of the underlying Fortran wrapper that the     *)
(* protocol must NOT rely on (variable reuses, chosen by the environment).  After every step the      *)
(* wrapper appends a row to the output: the array itself (a reference) or  *)
(* a copy (constant CopyRows).  With full output a new integrator is set   *)
(* up after every step, started from the row just produced.                *)
(*                                                                         *)
(*   arr[a]     which solution point array a currently holds (0 = x0)      *)
(*   yarr       the array that is the current integrator's y buffer        *)
(*   rows       the output list: cells  [ref |-> a]  or  [val |-> point]   *)
(***************************************************************************)
EXTENDS Integers, Sequences, FiniteSets, TLC

CONSTANTS Methods,          \* {"None", "lsoda", "vode", "ivode", "dopri5", "dop853"} and "odeint"
          CopyRows,         \* does the wrapper copy the row it appends?
          NT                \* number of requested output times

VARIABLES method, fullOutput, includeOrigin,   \* the call's options (chosen in Init, never changed)
          reuses,           \* environment fact: does this method update its y buffer in place?
          nt,               \* number of requested output times of this call
          arr, yarr, nextArr, rows, k, pc
vars == <<method, fullOutput, includeOrigin, reuses, nt, arr, yarr, nextArr, rows, k, pc>>
opts == <<method, fullOutput, includeOrigin, reuses, nt>>

Cell(a) == IF CopyRows THEN [kind |-> "val", v |-> arr[a]] ELSE [kind |-> "ref", v |-> a]
Deref(c) == IF c.kind = "val" THEN c.v ELSE arr[c.v]
View == [i \in 1..Len(rows) |-> Deref(rows[i])]

Init == /\ method \in Methods /\ fullOutput \in BOOLEAN /\ includeOrigin \in BOOLEAN /\ reuses \in BOOLEAN /\ nt = NT
        /\ arr = [a \in {1} |-> 0]              \* array 1 holds x0
        /\ yarr = 1 /\ nextArr = 2
        /\ rows = IF includeOrigin THEN << [kind |-> "val", v |-> 0] >> ELSE <<>>
        /\ k = 0 /\ pc = "step"

(* r.integrate(t_{k+1}) *)
Step ==
    /\ pc = "step" /\ k < nt
    /\ IF reuses
       THEN /\ arr' = [arr EXCEPT ![yarr] = k + 1]
            /\ UNCHANGED <<yarr, nextArr>>
       ELSE /\ arr' = [a \in DOMAIN arr \cup {nextArr} |-> IF a = nextArr THEN k + 1 ELSE arr[a]]
            /\ yarr' = nextArr /\ nextArr' = nextArr + 1
    /\ k' = k + 1 /\ pc' = "append"
    /\ UNCHANGED <<opts, rows>>

(* solution.append(o1) *)
AppendRow ==
    /\ pc = "append"
    /\ rows' = Append(rows, Cell(yarr))
    /\ pc' = IF fullOutput THEN "resetup" ELSE "step"
    /\ UNCHANGED <<opts, arr, yarr, nextArr, k>>

(* full output: a new integrator is created, started from the row just produced; *)
(* set_initial_value does not copy, so the new object's buffer is that row.      *)
Resetup ==
    /\ pc = "resetup"
    /\ pc' = "step"
    /\ IF CopyRows
       THEN /\ arr' = [a \in DOMAIN arr \cup {nextArr} |-> IF a = nextArr THEN arr[yarr] ELSE arr[a]]
            /\ yarr' = nextArr /\ nextArr' = nextArr + 1
       ELSE UNCHANGED <<arr, yarr, nextArr>>
    /\ UNCHANGED <<opts, rows, k>>

Return ==
    /\ pc = "step" /\ k = nt
    /\ pc' = "done"
    /\ UNCHANGED <<opts, arr, yarr, nextArr, rows, k>>

(* integrate / solve_determ hand the whole grid (origin prepended) to odeint in one call *)
Odeint ==
    /\ pc = "step" /\ k = 0 /\ method = "odeint" /\ includeOrigin /\ Len(rows) = 1
    /\ rows' = [i \in 1..(nt + 1) |-> [kind |-> "val", v |-> i - 1]]
    /\ k' = nt
    /\ UNCHANGED <<opts, arr, yarr, nextArr, pc>>

(* the integrator reports that it could not reach the requested time: the call REFUSES (raises) instead of      *)
(* handing out a row -- an honest outcome; what is never allowed is a row that is not the requested point.    *)
Refuse ==
    /\ pc = "step" /\ k < nt /\ method # "odeint"
    /\ pc' = "refused"
    /\ UNCHANGED <<opts, arr, yarr, nextArr, rows, k>>

Next == (method # "odeint" /\ (Step \/ AppendRow \/ Resetup \/ Refuse)) \/ Odeint \/ Return
Spec == Init /\ [][Next]_vars

---------------------------------------------------------------------------
(* C02: one row per requested time, in order, preceded by the initial state where the origin is included *)
Origin == IF includeOrigin THEN 1 ELSE 0
RowsAreTheRequestedPoints ==
    pc = "done" => /\ Len(rows) = nt + Origin
                   /\ \A i \in 1..Len(rows) : View[i] = i - Origin
(* a row once handed out never changes *)
RowsImmutable == [][\A i \in 1..Len(rows) : Deref(rows[i])' = Deref(rows[i])]_vars
=============================================================================
