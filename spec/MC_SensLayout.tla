---------------------------- MODULE MC_SensLayout ----------------------------
(* Exhaustive small-scope instance of SensLayout: every sub-multiset (as a  *)
(* set of menu entries, up to MaxSel) of four menus with different shapes -- *)
(* 2 states x 3 parameters with a saturating atom and a Laurent rate,       *)
(* 3 states x 1 parameter, 1 state x 2 parameters, 2 states without any     *)
(* parameter -- and on each: the hand-assembled block Jacobians equal the   *)
(* derivatives of the augmented right-hand sides in all three arrangements, *)
(* the layout laws hold, and the second-order right-hand side is symmetric. *)
EXTENDS SensLayout

CONSTANT MaxSel
VARIABLES menu, sel
vars == <<menu, sel>>

Tr(ty, o, d, mag) == [ty |-> ty, o |-> o, d |-> d, mag |-> mag]
Ev(rate, trs) == [rate |-> rate, trs |-> trs]

\* menu 1: S I | t | b g k | H = 1/(1 + k*I)     n = 7
n1 == 7
a1 == [j \in {7} |-> [kind |-> "H", arg |-> PMul(PSym(6, n1), PSym(2, n1)), pair |-> 0]]
M1 == <<
    Ev(PMul(PSym(4, n1), PMul(PSym(1, n1), PSym(2, n1))),                   << Tr("T", 1, 2, POne(n1)) >>),
    Ev(PMul(PSym(5, n1), PSym(2, n1)),                                      << Tr("D", 2, 0, PConst(RInt(2), n1)) >>),
    Ev(PMul(PMul(PSym(4, n1), PSym(1, n1)), PSym(7, n1)),                   << Tr("T", 1, 2, POne(n1)), Tr("B", 0, 1, PSym(6, n1)) >>),
    Ev(PMul(PMul(PSym(5, n1), PMul(PSym(1, n1), PSym(1, n1))), PTerm(ROne, MSet(MZero(n1), 4, -1))), << Tr("B", 0, 2, POne(n1)) >>)
>>
\* menu 2: A B C | t | p          n = 5
n2 == 5
M2 == <<
    Ev(PMul(PSym(5, n2), PMul(PSym(1, n2), PSym(2, n2))),  << Tr("T", 1, 2, POne(n2)) >>),
    Ev(PMul(PSym(2, n2), PSym(3, n2)),                     << Tr("T", 2, 3, POne(n2)) >>),
    Ev(PMul(PMul(PSym(5, n2), PSym(5, n2)), PSym(3, n2)),  << Tr("T", 3, 1, PConst(RInt(2), n2)) >>)
>>
\* menu 3: X | t | a c          n = 4
n3 == 4
M3 == <<
    Ev(PSym(3, n3),                                   << Tr("B", 0, 1, POne(n3)) >>),
    Ev(PMul(PMul(PSym(3, n3), PSym(4, n3)), PMul(PSym(1, n3), PSym(1, n3))), << Tr("D", 1, 0, POne(n3)) >>),
    Ev(PMul(PSym(4, n3), PMul(PSym(1, n3), PSym(2, n3))), << Tr("D", 1, 0, PConst(RInt(3), n3)) >>)
>>
\* menu 4: U W | t |            n = 3   (no parameters)
n4 == 3
M4 == <<
    Ev(PMul(PSym(1, n4), PSym(2, n4)),   << Tr("T", 1, 2, POne(n4)) >>),
    Ev(PSym(2, n4),                      << Tr("D", 2, 0, POne(n4)) >>)
>>
Menus == << [ns |-> 2, np |-> 3, n |-> n1, atoms |-> a1, ev |-> M1],
            [ns |-> 3, np |-> 1, n |-> n2, atoms |-> NoAtoms, ev |-> M2],
            [ns |-> 1, np |-> 2, n |-> n3, atoms |-> NoAtoms, ev |-> M3],
            [ns |-> 2, np |-> 0, n |-> n4, atoms |-> NoAtoms, ev |-> M4] >>

DefOf(mi, s) ==
    LET Mm == Menus[mi]
        idx == SetToSeq(s)
    IN  [ns |-> Mm.ns, np |-> Mm.np, npx |-> Mm.np, nd |-> 0, n |-> Mm.n, atoms |-> Mm.atoms, derived |-> <<>>,
         events |-> [q \in 1..Len(idx) |-> Mm.ev[idx[q]]], odes |-> <<>>, ff |-> TRUE]
Cur == DefOf(menu, sel)

Init == /\ menu \in 1..Len(Menus)
        /\ sel \in {s \in SUBSET (1..Len(Menus[menu].ev)) : Cardinality(s) <= MaxSel /\ s # {}}
Next == UNCHANGED vars
Spec == Init /\ [][Next]_vars

InvBlocks   == BlocksAreDerivatives(Cur)
InvLayout   == LayoutLaws(Cur)
InvFfSym    == FfSymmetric(Cur)
InvPinnedByState == (Cur.ns >= 2 /\ Cur.np >= 1) => BlockSPinned(Cur) = JacAugS(Cur)   \* negative control
InvReindex  == ArrangementsAreReindexings(Cur)
InvLen      == Len(AugFF(Cur)) = Cur.ns + NSens(Cur) + NFf(Cur)
=============================================================================
