SPECIFICATION Spec
CONSTANTS
  Methods <- MCMethods
  CopyRows = TRUE
  NT = 3
INVARIANT RowsAreTheRequestedPoints
PROPERTY RowsImmutable
CHECK_DEADLOCK FALSE
