------------------------------ MODULE MC_Jump ------------------------------
(* Exhaustive instances of the stepping machine (C04, C10, C11, C15). *)
EXTENDS Jump
NoL == -1

\* 1. closed SIR: infection S->I (rate > 0 iff S > 0 and I > 0), recovery I->R (iff I > 0)
V_SIR == << <<-1, 0>>, <<1, -1>>, <<0, 1>> >>
RP_SIR(e, y) == IF e = 1 THEN y[1] > 0 /\ y[2] > 0 ELSE y[2] > 0

\* 2. SIR with births into S and an upper limit on S: birth S (always), infection, recovery
V_SIRB == << <<1, -1, 0>>, <<0, 1, -1>>, <<0, 0, 1>> >>
RP_SIRB(e, y) == CASE e = 1 -> TRUE [] e = 2 -> y[1] > 0 /\ y[2] > 0 [] e = 3 -> y[2] > 0

\* 3. a single event on a single state: death of magnitude 1
V_ONE == << <<-1>> >>
RP_ONE(e, y) == y[1] > 0

\* 4. single state, birth and death of magnitude 2 (a death from X = 1 would leave the lower limit)
V_BD2 == << <<2, -2>> >>
RP_BD2(e, y) == IF e = 1 THEN TRUE ELSE y[1] > 0

\* 5. two-sided limits and a multi-transition event (S->I together with a death of I, net 0 on I)
V_MT == << <<-1, 1>>, <<0, -2>> >>
RP_MT(e, y) == IF e = 1 THEN y[1] > 0 ELSE y[2] > 0

X0_SIR == <<2, 1, 0>>
X0_SIRB == <<1, 1, 0>>
Hi_SIRB == <<2, NoL, NoL>>
X0_ONE == <<3>>
X0_BD2 == <<1>>
Hi_BD2 == <<5>>
X0_MT == <<2, 3>>
Lo_MT == <<0, 1>>
Hi_MT == <<2, 4>>
Lo3 == <<0, 0, 0>>
No3 == <<NoL, NoL, NoL>>
Lo1 == <<0>>
No1 == <<NoL>>
Lim0(n)  == [i \in 1..n |-> 0]
LimNo(n) == [i \in 1..n |-> NoL]
=============================================================================
