SPECIFICATION SSpec
CONSTANTS
  Seeds = {1, 2}
  Configs = {"A", "B", "N"}
  Source <- AllGlobal
  Draws <- DrawsAB
  MaxLen = 5
  DumpOn = FALSE
INVARIANT Reproducible
INVARIANT SeedSensitive
CHECK_DEADLOCK FALSE
