--------------------------- MODULE APA_JumpLimits ---------------------------
(***************************************************************************)
(* The accept / reject discipline of the stochastic stepper (Jump.tla:      *)
(* FRAccept / FRRejectStop / TLAccept / TLRejectFallback) for ARBITRARY     *)
(* integer populations, arbitrary limits and arbitrary proposed changes,    *)
(* with type annotations for Apalache.  A proposed step x + d (d = V.counts *)
(* for any V and any counts) is taken iff every component stays within its  *)
(* limits; otherwise state and time are unchanged.  InLimits is inductive,  *)
(* so no reachable state of any model violates its limits (C11), whatever   *)
(* the population size -- the TLC instances of MC_Jump are bounded.         *)
(* CheckHi = FALSE is the negative control (upper limits ignored).          *)
(***************************************************************************)
EXTENDS Integers

CONSTANTS
    \* @type: Int -> Bool;
    HasLo,
    \* @type: Int -> Int;
    Lo,
    \* @type: Int -> Bool;
    HasHi,
    \* @type: Int -> Int;
    Hi,
    \* @type: Bool;
    CheckHi

VARIABLES
    \* @type: Int -> Int;
    x,
    \* @type: Int;
    t,
    \* @type: Bool;
    lastOK

St == 1..3

CInit == /\ HasLo \in [St -> BOOLEAN] /\ HasHi \in [St -> BOOLEAN]
         /\ Lo \in [St -> Int] /\ Hi \in [St -> Int]
         /\ \A i \in St : (HasLo[i] /\ HasHi[i]) => Lo[i] <= Hi[i]
         /\ CheckHi = TRUE
CInitNoHi == /\ HasLo \in [St -> BOOLEAN] /\ HasHi \in [St -> BOOLEAN]
             /\ Lo \in [St -> Int] /\ Hi \in [St -> Int]
             /\ \A i \in St : (HasLo[i] /\ HasHi[i]) => Lo[i] <= Hi[i]
             /\ CheckHi = FALSE

\* @type: (Int -> Int) => Bool;
InLim(y) == \A i \in St : (HasLo[i] => y[i] >= Lo[i]) /\ (HasHi[i] => y[i] <= Hi[i])
\* @type: (Int -> Int) => Bool;
Passes(y) == \A i \in St : (HasLo[i] => y[i] >= Lo[i]) /\ ((CheckHi /\ HasHi[i]) => y[i] <= Hi[i])

Step ==
    \E d \in [St -> Int] : \E dt \in Int :
        /\ dt > 0
        /\ LET y == [i \in St |-> x[i] + d[i]] IN
           IF Passes(y)
           THEN x' = y /\ t' = t + dt /\ lastOK' = TRUE
           ELSE x' = x /\ t' = t /\ lastOK' = FALSE

Next == Step

InLimits == InLim(x)
IndInit == /\ x \in [St -> Int] /\ t \in Int /\ lastOK \in BOOLEAN /\ InLimits
=============================================================================
