
