------------------------------ MODULE ModelCopy ------------------------------
(***************************************************************************)
(* Beyond the listed properties: copies of a model object.                 *)
(*                                                                         *)
(* Objects hold a definition (a set of process ids) and, for each          *)
(* evaluator, a compiled snapshot together with the OBJECT WHOSE           *)
(* DEFINITION IS READ when the evaluator is recompiled (gen).  In a sound   *)
(* design gen[o] = o always.  The implementation builds its evaluators as  *)
(* closures over bound methods of the object they were created on; a deep  *)
(* copy copies the closures by reference, so after Copy(src, dst) the      *)
(* copy's evaluators still regenerate from src (RebindOnCopy = FALSE is    *)
(* that behaviour; TLC then finds an evaluation of the copy that does not  *)
(* show the copy's own modification).                                      *)
(***************************************************************************)
EXTENDS Integers, FiniteSets, TLC

CONSTANTS Objs, Procs, RebindOnCopy, MaxSteps

VARIABLES alive, defn, gen, snap, stale, ret, steps
cvars == <<alive, defn, gen, snap, stale, ret, steps>>

Init == /\ alive = {CHOOSE o \in Objs : TRUE}
        /\ defn = [o \in Objs |-> {}]
        /\ gen = [o \in Objs |-> o]
        /\ snap = [o \in Objs |-> {}]
        /\ stale = [o \in Objs |-> TRUE]
        /\ ret = [o |-> CHOOSE o \in Objs : TRUE, v |-> {}, ok |-> TRUE]
        /\ steps = 0

Mutate(o, p) == /\ o \in alive /\ p \notin defn[o] /\ steps < MaxSteps
                /\ defn' = [defn EXCEPT ![o] = @ \cup {p}]
                /\ stale' = [stale EXCEPT ![o] = TRUE]          \* the canaries of o are tripped
                /\ steps' = steps + 1
                /\ UNCHANGED <<alive, gen, snap, ret>>

Evaluate(o) == /\ o \in alive /\ steps < MaxSteps
               /\ LET s == IF stale[o] THEN defn[gen[o]] ELSE snap[o] IN
                  /\ snap' = [snap EXCEPT ![o] = s]
                  /\ ret' = [o |-> o, v |-> s, ok |-> s = defn[o]]
               /\ stale' = [stale EXCEPT ![o] = FALSE]
               /\ steps' = steps + 1
               /\ UNCHANGED <<alive, defn, gen>>

Copy(src, dst) == /\ src \in alive /\ dst \notin alive /\ steps < MaxSteps
                  /\ alive' = alive \cup {dst}
                  /\ defn' = [defn EXCEPT ![dst] = defn[src]]
                  /\ gen' = [gen EXCEPT ![dst] = IF RebindOnCopy THEN dst ELSE gen[src]]
                  /\ snap' = [snap EXCEPT ![dst] = snap[src]]
                  /\ stale' = [stale EXCEPT ![dst] = TRUE]        \* CompileCanary.__deepcopy__ trips the copy's canaries
                  /\ steps' = steps + 1
                  /\ UNCHANGED ret

Next == \/ \E o \in Objs : \E p \in Procs : Mutate(o, p)
        \/ \E o \in Objs : Evaluate(o)
        \/ \E s, d \in Objs : Copy(s, d)
Spec == Init /\ [][Next]_cvars

(* every evaluation shows the definition of the object it was asked of *)
OwnDefinition == ret.ok
=============================================================================
