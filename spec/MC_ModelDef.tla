----------------------------- MODULE MC_ModelDef -----------------------------
(* Exhaustive small-scope instance of ModelDef: every history of API calls  *)
(* over a menu that contains each transition type, numeric and symbolic     *)
(* magnitudes, a multi-transition event, a Laurent rate, a saturating rate, *)
(* a derived parameter and explicit ODE terms.                              *)
EXTENDS ModelDef, Json, Decompose, NextGen

CONSTANT DumpOn,     \* TRUE: print every live state (mode G replays them into PyGOM)
         DumpDerivs  \* TRUE: the printed states also carry the derivative objects of C03

\* symbols: 1 S, 2 I, 3 t, 4 b, 5 g, 6 d1 (derived = (1-g)*b), 7 H = 1/(1+g*I)
n0 == 7
sS == PSym(1, n0)  sI == PSym(2, n0)  sb == PSym(4, n0)  sg == PSym(5, n0)
sd == PSym(6, n0)  sH == PSym(7, n0)
one == POne(n0)
two == PConst(RInt(2), n0)
ginv == PTerm(ROne, MSet(MZero(n0), 5, -1))

MCAtoms   == [j \in {7} |-> [kind |-> "H", arg |-> PMul(sg, sI), pair |-> 0]]
MCDerived == << PMul(PSub(one, sg), sb) >>

Tr(ty, o, d, mag) == [ty |-> ty, o |-> o, d |-> d, mag |-> mag]
Ev(rate, trs) == [kind |-> "event", rate |-> rate, trs |-> trs, st |-> 0, eqn |-> PZero]
Od(st, eqn)   == [kind |-> "ode", rate |-> PZero, trs |-> <<>>, st |-> st, eqn |-> eqn]

MCMenu == <<
    Ev(PMul(sb, PMul(sS, sI)),           << Tr("T", 1, 2, one) >>),
    Ev(PMul(sg, sI),                     << Tr("T", 2, 1, two) >>),
    Ev(sb,                               << Tr("B", 0, 1, one) >>),
    Ev(PMul(PMul(sg, sI), sH),           << Tr("D", 2, 0, two) >>),
    Ev(PMul(PMul(sb, PMul(sS, sI)), ginv), << Tr("B", 0, 2, sg) >>),
    Ev(PMul(sd, sS),                     << Tr("T", 1, 2, one), Tr("D", 1, 0, one) >>),
    Od(1, PNeg(PMul(sb, sS))),
    Od(2, PScale(<<1, 2>>, PMul(sg, PMul(sS, sI))))
>>

\* closed-model sub-menu (only between-state transitions): entries 1, 2
TermsOfProc(p) ==
    [kind |-> p.kind, rate |-> PToTerms(p.rate), st |-> p.st, eqn |-> PToTerms(p.eqn),
     trs  |-> [k \in 1..Len(p.trs) |-> [ty |-> p.trs[k].ty, o |-> p.trs[k].o, d |-> p.trs[k].d,
                                         mag |-> PToTerms(p.trs[k].mag)]]]
Header ==
    [menu |-> [k \in 1..Len(MCMenu) |-> TermsOfProc(MCMenu[k])],
     sym  |-> [ns |-> 2, np |-> 2, nd |-> 1, n |-> n0,
               atoms   |-> << [idx |-> 7, kind |-> "H", arg |-> PToTerms(MCAtoms[7].arg), pair |-> 0] >>,
               derived |-> [k \in 1..Len(MCDerived) |-> PToTerms(MCDerived[k])]]]
ASSUME DumpOn => PrintT(ToJson(Header))
Dump ==
    (DumpOn /\ phase = "live") =>
        PrintT(ToJson([hist |-> hist,
                       ode  |-> VToTerms(Ode(CurDef)),
                       V    |-> MToTerms(VMat(CurDef)),
                       R    |-> VToTerms(RateVec(CurDef)),
                       pure |-> VToTerms(PureOde(CurDef)),
                       reactant |-> Reactant(CurDef),
                       jac   |-> IF DumpDerivs THEN MToTerms(Jac(CurDef)) ELSE <<>>,
                       grad  |-> IF DumpDerivs THEN MToTerms(Grad(CurDef)) ELSE <<>>,
                       djac  |-> IF DumpDerivs THEN MToTerms(DiffJac(CurDef)) ELSE <<>>,
                       gjac  |-> IF DumpDerivs THEN MToTerms(GradJac(CurDef)) ELSE <<>>,
                       tj    |-> IF DumpDerivs THEN MToTerms(TransJac(CurDef)) ELSE <<>>,
                       tmean |-> IF DumpDerivs THEN VToTerms(TransMean(CurDef)) ELSE <<>>,
                       tvar  |-> IF DumpDerivs THEN VToTerms(TransVar(CurDef)) ELSE <<>>]))

(* beyond the listed properties: decomposing the ODE of any reachable definition and reading it back *)
InvDecomposeRoundTrip == RoundTrip(Ode(CurDef)) /\ RatesPositive(Ode(CurDef))

(* beyond the listed properties: the next-generation decomposition, for every non-empty proper subset of the states *)
InvNextGen == NextGenLaws(CurDef)

\* vacuity guards: the interesting antecedents do occur
SomeClosed   == ~(Len(procs) >= 2 /\ AllBetweenStates(CurDef))
SomeLegacy   == ~(\E i \in 1..Len(hist) : hist[i].route \in {"LT", "LBo", "LBd", "LD"})
=============================================================================
