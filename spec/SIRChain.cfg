SPECIFICATION Spec
CONSTANTS
  S0 = 11
  I0 = 1
INVARIANT TypeOK
INVARIANT DeadIffAbsorbed
ACTION_CONSTRAINT Edge
CHECK_DEADLOCK FALSE
