---- MODULE MC_ParamBind ----
EXTENDS ParamBind, Json
CONSTANT DumpOn
Dump == (DumpOn /\ ncall = MaxCalls) => PrintT(ToJson(hist))
====
