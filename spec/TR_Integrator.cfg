SPECIFICATION TraceSpec
CONSTANTS
  Methods = {}
  CopyRows = TRUE
  NT <- TraceNT
INVARIANT Progress
PROPERTY RowsImmutable
CHECK_DEADLOCK FALSE
