SPECIFICATION Spec
CONSTANTS
  NS = 2
  NP = 2
  NT = 2
  NV = 1
  MaxCalls = 0
  POps = {"cost"}
  IOps = {"costIV"}
  DumpOn = FALSE
  DumpDepth = 0
  ScriptId = "C06"
INVARIANT NegSortedColumns
CHECK_DEADLOCK FALSE
