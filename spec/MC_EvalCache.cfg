SPECIFICATION Spec
CONSTANTS
  Evals <- MCEvals
  Master = "ode"
  Mutators <- MCMutators
  Trips <- AllTrip
  MaxVer = 4
INVARIANT Fresh
INVARIANT IndInv
INVARIANT TypeOK
