------------------------------- MODULE MC_Abc -------------------------------
EXTENDS Abc
(* negative control: acceptance test relaxed to cost <= tol *)
RelaxedTrial(c, p) ==
    /\ gen > 0 /\ Len(parts) < n /\ trials < n + 2
    /\ trials' = trials + 1
    /\ parts' = IF p /\ c <= tol THEN Append(parts, [cost |-> c, prior |-> p, tol |-> tol, gen |-> gen]) ELSE parts
    /\ UNCHANGED <<gen, tol, post, tols, runs, n>>
NegNext == (\E t \in Ranks : Continue(t) \/ \E m \in 1..N : Start(t, m) \/ Restart(t, m)) \/ (\E c \in Ranks : \E p \in BOOLEAN : RelaxedTrial(c, p)) \/ EndGeneration
NegSpec == Init /\ [][NegNext]_avars
=============================================================================
