------------------------------- MODULE TR_Abc -------------------------------
(***************************************************************************)
(* Trace validation of one recorded ABC session (get_posterior_sample,     *)
(* optionally continue_posterior_sample) against Abc.  Costs and           *)
(* tolerances are dense ranks within the session.  Events:                 *)
(*   Start / Restart (tol, n) / Continue (tol)                             *)
(*   Accept   cost, prior, w, recomputed                                    *)
(*            one particle returned by the generation step: its stored      *)
(*            distance (rank), whether its prior density is positive        *)
(*            according to the SPECIFICATION's prior table, whether its      *)
(*            weight is positive and finite, whether the stored distance    *)
(*            equals the cost recomputed by a fresh loss object at the       *)
(*            back-transformed, re-ordered particle                          *)
(*   EndGen   next (tolerance of the next generation, or -1: the call        *)
(*            returned)                                                      *)
(*   Final    parts[]: what res / dist / w hold after the call               *)
(***************************************************************************)
EXTENDS Abc, Json, IOUtils

Tr == JsonDeserialize(IOEnv.TRACE_FILE)
VARIABLE l
tvars == <<avars, l>>
Ev == Tr.events[l]
NEv == Len(Tr.events)
TraceN == Tr.N
TraceMaxGen == Tr.maxgen
TraceMaxRank == Tr.maxrank
TraceMode == Tr.mode

IsEvent(name) == l <= NEv /\ Ev.ev = name /\ l' = l + 1

TraceInit == Init /\ l = 1
TrStart    == IsEvent("Start") /\ Start(Ev.tol, Ev.n)
TrRestart  == IsEvent("Restart") /\ Restart(Ev.tol, Ev.n)
TrContinue == IsEvent("Continue") /\ Continue(Ev.tol)
TrAccept   == /\ IsEvent("Accept")
              /\ gen > 0 /\ Len(parts) < n
              /\ Accepts(Ev.cost, Ev.prior)               \* the specification accepts this trial too
              /\ Ev.w = "ok" /\ Ev.recomputed = "ok"
              /\ parts' = Append(parts, [cost |-> Ev.cost, prior |-> Ev.prior, tol |-> tol, gen |-> gen])
              /\ trials' = trials
              /\ UNCHANGED <<gen, tol, post, tols, runs, n>>
(* with a tolerance list, generation g runs under the g-th entry of the list the USER supplied (Tr.tollist, ranks) *)
TrEndGen   == /\ IsEvent("EndGen") /\ EndGeneration
              /\ IF Ev.next >= 0 THEN gen' > 0 /\ tol' = Ev.next ELSE gen' = 0
              /\ (Ev.next >= 0 /\ Len(Tr.tollist) > gen) => Ev.next = Tr.tollist[gen + 1]
TrFinal    == /\ IsEvent("Final") /\ gen = 0 /\ runs > 0
              /\ Len(Ev.parts) = n /\ Len(post) = n
              /\ \A i \in 1..n : /\ Ev.parts[i].cost = post[i].cost
                                 /\ Ev.parts[i].cost < tol
                                 /\ Ev.parts[i].prior /\ Ev.parts[i].w = "ok" /\ Ev.parts[i].recomputed = "ok"
              /\ Ev.finaltol = tol
              /\ UNCHANGED avars
TraceNext == TrStart \/ TrRestart \/ TrContinue \/ TrAccept \/ TrEndGen \/ TrFinal
TraceSpec == TraceInit /\ [][TraceNext]_tvars
Progress == PrintT(<<"AT", l, NEv + 1>>)
=============================================================================
