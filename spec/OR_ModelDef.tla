----------------------------- MODULE OR_ModelDef -----------------------------
(***************************************************************************)
(* Oracle mode for ModelSem: read model definitions (JSON), evaluate the   *)
(* specification's operators on each and write the expected normal forms   *)
(* (JSON).  Nothing here restates a semantic operator.                     *)
(*   env OR_IN   absolute path of the input  (array of definitions)        *)
(*   env OR_OUT  absolute path of the output (array of result records)     *)
(***************************************************************************)
EXTENDS DefJson, Json, IOUtils, NextGen

In == JsonDeserialize(IOEnv.OR_IN)

Wants(j, s) == \E k \in 1..Len(j.want) : j.want[k] = s
Opt(j, s, v) == IF Wants(j, s) THEN v ELSE <<>>

Out(j) ==
    LET D == ToDef(j) IN
    [id       |-> j.id,
     wf       |-> WellFormed(D),
     ode      |-> VToTerms(Ode(D)),
     V        |-> MToTerms(VMat(D)),
     R        |-> VToTerms(RateVec(D)),
     pure     |-> VToTerms(PureOde(D)),
     reactant |-> Reactant(D),
     odeIsVR  |-> OdeIsVRPlusPure(D),
     closed   |-> AllBetweenStates(D),
     conserves|-> ClosedConserves(D),
     colsZero |-> ClosedColumnsZero(D),
     support  |-> ReactantIsSupport(D),
     jac      |-> Opt(j, "jac",   MToTerms(Jac(D))),
     grad     |-> Opt(j, "grad",  MToTerms(Grad(D))),
     djac     |-> Opt(j, "djac",  MToTerms(DiffJac(D))),
     gjac     |-> Opt(j, "gjac",  MToTerms(GradJac(D))),
     hess     |-> Opt(j, "hess",  [i \in 1..D.ns |-> MToTerms(Hess(D)[i])]),
     tj       |-> Opt(j, "tj",    MToTerms(TransJac(D))),
     tmean    |-> Opt(j, "tmean", VToTerms(TransMean(D))),
     tvar     |-> Opt(j, "tvar",  VToTerms(TransVar(D))),
     \* beyond the listed properties: j.dis is the sequence of disease states
     nextgen  |-> IF Wants(j, "nextgen")
                  THEN LET Dis == {j.dis[k] : k \in 1..Len(j.dis)}
                       IN  [F |-> VToTerms(FVec(D, Dis)), V |-> VToTerms(VVec(D, Dis)),
                            dF |-> MToTerms(DF(D, Dis)), dV |-> MToTerms(DV(D, Dis))]
                  ELSE <<>>]

ASSUME JsonSerialize(IOEnv.OR_OUT, [i \in 1..Len(In) |-> Out(In[i])])
=============================================================================
